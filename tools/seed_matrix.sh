#!/bin/bash
# tools/seed_matrix.sh [tier]: for every seeded change, apply it in a scratch worktree of /repo HEAD and run the check(s) of
# the property it breaks (plus related ones); print one line per (seed, check).
tier=${1:-quick}
cd /verif
declare -A EXTRA=( [S_C03_a]="C05 C12" [S_C05_a]="C03" [S_C04_a]="C05" [S_C08_a]="C13" [S_C13_a]="C08" [S_C01_a]="C02 C04" [S_C14_a]="C02 C04" [S_C15_a]="C07" [S_C16_a]="" [S_C02_a]="" )
for s in seeded/S_*; do
  id=$(basename $s); prop=$(echo $id | cut -d_ -f2)
  wt=/tmp/wt/mx_$id
  git -C /repo worktree remove --force $wt >/dev/null 2>&1
  git -C /repo worktree add --detach $wt HEAD >/dev/null 2>&1
  if ! git -C $wt apply $(realpath $s)/patch.diff 2>/dev/null; then echo "$id: patch does not apply to HEAD"; git -C /repo worktree remove --force $wt; continue; fi
  for c in $prop ${EXTRA[$id]}; do
    cp evidence/$c.json /tmp/ev_$c.bak 2>/dev/null
    VERIF_REPO=$wt ./check $c $tier > /tmp/mx_${id}_$c.log 2>&1; rc=$?
    cp /tmp/ev_$c.bak evidence/$c.json 2>/dev/null
    nv=$(grep -c "^VIOLATION" /tmp/mx_${id}_$c.log)
    echo "$id $c rc=$rc violations_listed=$nv :: $(grep 'first violation' /tmp/mx_${id}_$c.log | cut -c1-260)"
  done
  git -C /repo worktree remove --force $wt
done
