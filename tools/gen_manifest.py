"""Regenerate MANIFEST.json from the property modules that exist (python tools/gen_manifest.py)."""
import importlib, json, os, sys
sys.path.insert(0, "/verif")
props = [json.loads(l) for l in open("/verif/properties.jsonl")]
NOTES = {}
checks, na = [], []
for p in props:
    pid = p["id"]
    path = f"/verif/mc/props/{pid}.py"
    if not os.path.exists(path):
        na.append(dict(property_id=pid, reason="check designed (DESIGN.md section 3) but not built yet in this tree; not claimed"))
        continue
    mod = importlib.import_module(f"mc.props.{pid}")
    if getattr(mod, "NOT_APPLICABLE", None):
        na.append(dict(property_id=pid, reason=mod.NOT_APPLICABLE))
        continue
    checks.append(dict(
        property_id=pid,
        quick_cmd=f"./check {pid} quick",
        thorough_cmd=f"./check {pid} thorough",
        evidence_file=f"/verif/evidence/{pid}.json",
        replay_cmd_template=f"./check {pid} --replay {{path}}",
        engine=getattr(mod, "ENGINE", "mc"),
        level_claimed=dict(category=mod.LEVEL, text=mod.LEVEL_TEXT, design_ref=f"DESIGN.md section 3, {pid}"),
        level_note=mod.LEVEL_NOTE,
        technique=mod.TECHNIQUE,
    ))
manifest = dict(
    version=1,
    setup_cmd="/venv/bin/pip install --quiet --no-index --find-links /opt/veriftools/wheels --target /verif/.vendor mpmath",
    hooks=dict(guard="PROBDIFFEQ_VERIF", enable="no source hooks exist: every observation point is public API or a pluggable protocol object; checks import probdiffeq from $VERIF_REPO (default /repo) and set PROBDIFFEQ_VERIF=1 for uniformity",
               baseline_off_cmd="cd /repo && /venv/bin/python -m pytest -ra -q -p no:cacheprovider --timeout=900 --continue-on-collection-errors",
               source_commits=[], add_only=True),
    engines=[
        dict(name="E1 xstate", path="mc/xstate.py", serves_properties=["C06", "C03", "C05", "C12", "C13"], kind_free_text="explicit-state / stateless exploration of the real adaptive loop under scripted solver, error estimator and controller"),
        dict(name="E2 xprod", path="mc/props", serves_properties=[c["property_id"] for c in checks], kind_free_text="exhaustive product-space enumeration of short API programs against exact reference models (mc/refmodel)"),
        dict(name="E3 xops", path="mc/props/C08.py", serves_properties=["C08", "C09"], kind_free_text="breadth-first exploration of operation sequences on the Gaussian algebra with a lock-step dense reference"),
        dict(name="E4 tla", path="tla/AdaptiveLoop.tla + mc/replay_tlc.py", serves_properties=["C06"], kind_free_text="TLA+ model of the stepping protocol explored by TLC; every edge of the dumped state graph is replayed on the real RejectionLoop.loop (edge-level conformance)"),
    ],
    checks=checks,
    not_applicable=na,
    notes="All checks: ./check <ID> quick|thorough from /verif; VERIF_SEED only selects numeric palettes, never whether a case is explored. Known findings: known_findings.json.",
)
json.dump(manifest, open("/verif/MANIFEST.json", "w"), indent=1)
print("checks:", [c["property_id"] for c in checks], "na:", len(na))
