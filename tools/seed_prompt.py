"""Print the prompt given to an independent sub-agent that seeds a property-breaking change.

Usage: python tools/seed_prompt.py C06 /tmp/wt/seed_C06 [variant-hint]
The agent receives only the property text and a scratch worktree; nothing from /verif.
"""
import json, sys
pid, wt = sys.argv[1], sys.argv[2]
hint = sys.argv[3] if len(sys.argv) > 3 else ""
props = {json.loads(l)["id"]: json.loads(l) for l in open("/verif/properties.jsonl")}
p = props[pid]
print(f"""You are testing how well a verification effort can detect regressions in the Python/JAX library pnkraemer/probdiffeq (probabilistic ODE solvers). You have your own scratch git worktree of the repository at {wt} (detached HEAD of the pinned commit). Work ONLY inside {wt}. Do NOT read or touch /repo or /verif (those are off limits), and do not commit anything.

Property that should hold for the library ("{p['title']}"):
  {p['statement']}
Scope of the property: {p['quantifier']['text']}
Relevant source files (relative to the worktree): {', '.join(p['anchors']['files'])}

Your job: make ONE small, realistic source change (the kind of slip a maintainer could make in a refactor: a wrong index/offset, swapped argument, dropped factor, wrong comparison, stale variable, wrong branch, missing absolute value, state updated at the wrong moment, ...) under {wt}/probdiffeq/ that BREAKS this property while
  (a) the package still imports, and
  (b) the ENTIRE existing test suite still passes. Run it like this (about 2-4 minutes):
        cd {wt} && PYTHONPATH={wt} /venv/bin/python -m pytest -q -p no:cacheprovider -n 4 --timeout=900 2>&1 | tail -5
      (PYTHONPATH is essential: without it Python imports the library from another location. Verify with
        cd {wt} && PYTHONPATH={wt} /venv/bin/python -c "import probdiffeq; print(probdiffeq.__file__)"  -> must print a path under {wt}.)
      Baseline is "335 passed, 2 skipped". If any test fails with your change, the change is not acceptable: pick another one.
Prefer a change that needs something specific to manifest — a particular accept/reject history, a particular configuration (one of the factorisations dense/isotropic/blockdiag, one calibration mode, one strategy), a multi-step sequence, an unusual-but-valid input (e.g. non-uniform grid, non-unit scale, time-dependent field, higher order, particular shape), or two sites that each look fine alone — NOT one that any ordinary use would expose at once. {hint}

Deliverables, all written into {wt}/seed_out/ (create it):
  1. patch.diff  = output of `git -C {wt} diff -- probdiffeq` (only library source changes; keep it minimal, a few lines).
  2. demo.py     = a small standalone program (run as `cd {wt} && PYTHONPATH={wt} /venv/bin/python seed_out/demo.py`) that demonstrates the violation of the property through the public behaviour of the library: it must exit with status 1 (printing what is wrong) WITH your change applied and exit 0 WITHOUT it (check both: use `git -C {wt} stash` / `git -C {wt} stash pop`, or `git apply -R` / `git apply`). Use float64 (`jax.config.update("jax_enable_x64", True)`) where precision matters. The demo must judge the behaviour against an independent expectation (a closed form, a hand-written reference computation, or an invariant stated in the property), not against a recorded output of the unmodified code.
  3. meta.json   = {{"property": "{pid}", "summary": "<one sentence: what was changed>", "needs": "<what specific input/config/history is needed for it to manifest>", "files": [...], "tests": "<the last line of the pytest run with the change applied>", "demo_with_change_exit": 1, "demo_without_change_exit": 0}}
Leave the change APPLIED in the worktree when you finish. In your final answer, report: the diff, what is needed to manifest, the pytest summary line, and the two demo exit codes. Tools: /venv/bin/python has jax, numpy, pytest, pytest-xdist; there is no network. Be economical: do not explore more of the code base than you need.""")
