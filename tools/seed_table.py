"""Print the markdown table of seeded changes (DESIGN section 8) from seeded/*/meta.json, verified.json and the matrix logs."""
import glob, json, os, re, sys
rows = {}
for log in sys.argv[1:]:
    for line in open(log):
        m = re.match(r"(S_\w+) (C\d+) rc=(\d+) violations_listed=(\d+)", line)
        if m:
            rows.setdefault(m.group(1), []).append((m.group(2), int(m.group(3)), int(m.group(4))))
print("| seed | breaks | change (one line) | needs | suite with change | demo without / with | caught by (quick tier) | missed by |")
print("|------|--------|-------------------|-------|-------------------|---------------------|------------------------|-----------|")
for d in sorted(glob.glob("/verif/seeded/S_*")):
    sid = os.path.basename(d)
    meta = json.load(open(os.path.join(d, "meta.json"))) if os.path.exists(os.path.join(d, "meta.json")) else {}
    ver = json.load(open(os.path.join(d, "verified.json"))) if os.path.exists(os.path.join(d, "verified.json")) else {}
    caught = [c for c, rc, nv in rows.get(sid, []) if rc == 1]
    missed = [c for c, rc, nv in rows.get(sid, []) if rc == 0]
    summ = str(meta.get("summary", "")).replace("|", "/")[:170]
    needs = str(meta.get("needs", "")).replace("|", "/")[:170]
    tests = re.sub(r" in .*", "", ver.get("tests_with_change", "?"))
    print(f"| {sid} | {meta.get('property', sid.split('_')[1])} | {summ} | {needs} | {tests} | {ver.get('demo_without_change_exit', '?')} / {ver.get('demo_with_change_exit', '?')} | {', '.join(caught) or '-'} | {', '.join(missed) or '-'} |")
