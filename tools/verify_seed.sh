#!/bin/bash
# tools/verify_seed.sh <seed dir>: confirm in a scratch worktree that (a) the demo passes without and fails with the change,
# (b) the repository's own test suite still passes with the change. Writes <seed dir>/verified.json.
seed="$(realpath $1)"; id=$(basename $seed)
wt=/tmp/wt/vs_$id
git -C /repo worktree remove --force $wt >/dev/null 2>&1
base=HEAD
git -C /repo worktree add --detach $wt HEAD >/dev/null 2>&1
if ! git -C $wt apply --check $seed/patch.diff 2>/dev/null; then
  git -C /repo worktree remove --force $wt; git -C /repo worktree add --detach $wt bd5d3ed >/dev/null 2>&1; base=bd5d3ed
  if ! git -C $wt apply --check $seed/patch.diff 2>/dev/null; then echo "$id: patch applies to neither HEAD nor bd5d3ed"; git -C /repo worktree remove --force $wt; exit 1; fi
fi
mkdir -p $wt/seed_out; cp $seed/demo.py $wt/seed_out/
(cd $wt && PYTHONPATH=$wt timeout 1200 /venv/bin/python seed_out/demo.py > /tmp/wt/vs_${id}_demo0.log 2>&1); d0=$?
git -C $wt apply $seed/patch.diff
(cd $wt && PYTHONPATH=$wt timeout 1200 /venv/bin/python seed_out/demo.py > /tmp/wt/vs_${id}_demo1.log 2>&1); d1=$?
(cd $wt && PYTHONPATH=$wt timeout 3000 /venv/bin/python -m pytest -q -p no:cacheprovider -n 6 --timeout=900 > /tmp/wt/vs_${id}_tests.log 2>&1)
tl=$(tail -n 1 /tmp/wt/vs_${id}_tests.log)
echo "{\"seed\": \"$id\", \"base\": \"$(git -C $wt rev-parse --short $base 2>/dev/null || echo $base)\", \"demo_without_change_exit\": $d0, \"demo_with_change_exit\": $d1, \"tests_with_change\": \"$tl\"}" > $seed/verified.json
cat $seed/verified.json
git -C /repo worktree remove --force $wt
