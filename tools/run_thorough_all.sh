#!/bin/bash
# run every thorough check once (background sweep); output one line per check
export VERIF_WORKERS=${VERIF_WORKERS:-8}
for id in C20 C17 C19 C11 C10 C13 C18 C09 C08 C12 C07 C04 C14 C16 C15 C06 C05 C03 C02 C01; do
  s=$(date +%s); ./check $id thorough > thorough_$id.log 2>&1; rc=$?
  echo "$id rc=$rc $(( $(date +%s) - s ))s $(tail -n 1 thorough_$id.log | cut -c1-220)"
  grep -E "KNOWN-FINDING|VIOLATION|HARNESS" thorough_$id.log | cut -c1-300 | head -5
done
