#!/bin/bash
export VERIF_WORKERS=${VERIF_WORKERS:-12}
for id in ${IDS:-C06 C05 C03 C01 C02}; do
  s=$(date +%s); ./check $id thorough > thorough_$id.log 2>&1; rc=$?
  echo "$id rc=$rc $(( $(date +%s) - s ))s $(tail -n 1 thorough_$id.log | cut -c1-220)"
  grep -E "KNOWN-FINDING|VIOLATION|HARNESS" thorough_$id.log | cut -c1-300 | head -5
done
