"""Rewrite DESIGN.md section 8 (seeded changes) from seeded/*/meta.json (+verified.json) and the self-made mutant log."""
import glob, json, os, re, sys
ROOT = "/verif"
rows = []
for d in sorted(glob.glob(f"{ROOT}/seeded/S_*")):
    sid = os.path.basename(d)
    meta = json.load(open(f"{d}/meta.json"))
    ver = meta.get("confirmed_by_builder", {})
    runs = meta.get("checks_run_against_it", [])
    caught = [r["check"] + (" (after strengthening)" if r.get("note") else "") for r in runs if r["exit_code"] == 1]
    missed = [r["check"] for r in runs if r["exit_code"] == 0 and not any(x["check"] == r["check"] and x["exit_code"] == 1 for x in runs)]
    summ = str(meta.get("summary", "")).replace("|", "/").replace("\n", " ")[:200]
    needs = str(meta.get("needs", "")).replace("|", "/").replace("\n", " ")[:200]
    tests = re.sub(r" in .*", "", ver.get("tests_with_change", "?"))
    rows.append(f"| {sid} | {meta.get('property')} | {summ} | {needs} | {tests} | {ver.get('demo_without_change_exit', '?')} / {ver.get('demo_with_change_exit', '?')} | {', '.join(caught) or '-'} | {', '.join(missed) or '-'} |")
n = len(rows)
self_rows = []
if os.path.exists(f"{ROOT}/seeded/selfmade/results.log"):
    for line in open(f"{ROOT}/seeded/selfmade/results.log"):
        m = re.match(r"(M\d+) (C\d+) tests=\[(.*?)\] check_rc=(\d) :: (.*?) ::", line)
        if m:
            t = re.sub(r" in .*", "", m.group(3))
            self_rows.append(f"| {m.group(1)} | {m.group(2)} | {m.group(5)} | {t} | {'caught' if m.group(4) == '1' else 'not observable'} |")
sec = f'''

---------------------------------------------------------------------------------------

## 8. Seeded changes and which checks catch them

Procedure. Fresh sub-agents received **only the text of one property** (title, statement, scope,
anchor file names; `tools/seed_prompt.py`, for the `_b` seeds plus one sentence naming the code
site of the `_a` change to avoid) and a scratch worktree of `/repo`; nothing from `/verif`. Each
returned a small source change, a demonstration program judging against an independent
expectation, and a `meta.json`. Every change was then confirmed here (`tools/verify_seed.sh`;
recorded in each `seeded/<id>/meta.json` under `confirmed_by_builder`): in a scratch worktree of
`/repo` HEAD the demonstration exits 0 without and 1 with the change, and the unedited test suite
reports 335 passed with the change. The checks were run against each change in a scratch worktree
with the patch applied (`VERIF_REPO=<worktree> ./check <ID> quick` - the same code path as against
`/repo`; `tools/seed_matrix.sh`), because background thorough sweeps were using `/repo` at the
time; `tools/try_seed.sh <seed dir> quick <ID>` is the apply-to-`/repo` / run / undo variant and was
used for the first seeds. S_C03_a and S_C05_a are the same patch, found independently.

Result: **all {n} seeded changes are caught by the quick tier of the check of the property they
target**. Six needed a strengthening of a check first (recorded below; the table marks them "after
strengthening"); after it they are caught on every run (the exploration is deterministic and exhaustive, so "caught once" means "caught
always").

| seed | breaks | change | needs | suite with change | demo without / with | caught by (quick tier) | not visible to |
|------|--------|--------|-------|-------------------|---------------------|------------------------|----------------|
''' + "\n".join(rows) + '''

Strengthenings triggered by seeds.
* S_C02_b (MLE drops the initial-constraint datum) was missed by C02's *quick* tier at first: the
  `constraint_init` variant was only in the thorough tier; one (d, m, q) of it was added to the
  quick tier. While doing so the quick tier met `solver_mle` + `constraint_init` + exact initial
  state + `damp=0`, which returns NaN: the first datum of the estimator is 0/0 there (zero residual
  over zero variance) - undefined rather than wrong, excluded by an a-priori rule as C04 already did.
* S_C15_a (contraction rate = number of array leaves) targets C15 and is caught there; C07 could
  not see it because it only used single-array states - a pytree-state part was added to C07.
* S_C19_b (transposed Cholesky factor handed to the MAP solver) was invisible to C19's first MAP
  part, which only used the diagonal-factor initial distribution; the part now also uses a
  distribution propagated through a prior transition (non-symmetric factor) and compares the MAP
  point itself with the exact conditional mean.
* S_C16_a (transposed tangent in `qr_r_jvp`) is caught by the kernel cases (`R^T R` derivative) and
  the exact-rank lattice; on the full-rank lattice its effect is, by construction of the
  counterfactual, attributed to known finding F6a - which is why the kernel part exists.
* S_C01_b (the rtol reference of `error_residual_std` uses the first-derivative coefficient instead of
  the state) was missed by C01 at first: every problem of its catalogue had |u'| ~ |u|, for which the
  two references are of the same size. The catalogue now contains the damped rotation with time
  rescaled by 4096 (a power of 4, so the rescaling is exact in binary arithmetic and the unchanged tree
  reproduces the O(1)-time-scale results); with the change the error is 48 .. 170 x tolerance there.
  C07 (estimator formula) catches the same change directly.
* S_C14_b (`error_norm_rms_then_scale` without the 1/sqrt(size)) needs an adaptive dense-vs-isotropic
  comparison with the non-default error norm; C14's adaptive part used the default estimator only and
  now enumerates {residual, state} estimators x both error norms (d = 2; thorough also d = 3). C07
  catches it too (norm formula).
* S_C16_b (stop-gradient of the dynamic scale guarded by `re_linearize_after_calibration`) needs
  `solver_dynamic(stop_gradient_through_calibration=False, re_linearize_after_calibration=True)`;
  C16's lattice only had the default `re_linearize_after_calibration=False`. The calibration axis of
  C16 is now {none, mle, dynamic, dynamic_relin}; on the unchanged tree every mismatch of the new cases
  is explained by the counterfactual (known finding F6a), with the change the output-scale derivative
  is 0 with and without the exact QR derivative -> VIOLATION.
* Re-confirmation. After the last changes to the tolerance rules of C01, C02, C03 and to C06's scripted
  controllers (section 7, false alarms of the thorough tier) the seeds targeting those checks were run
  again against the final code (scratch worktrees, quick tier): S_C01_a (35 violating cases), S_C01_b (11),
  S_C02_a (50+), S_C02_b (36), S_C03_a (50+), S_C03_b (50+), S_C06_a (50+), S_C06_b (50+) - all still caught.
* "not visible to" lists other properties' checks that were also tried: S_C03_a does not change the
  time-series loss (C12 only needs mutually consistent conditionals), S_C05_b is outside C04's
  lattice (no dynamic-scale interpolation), S_C09_b / S_C11_b do not touch what C02 exercises.

Self-made changes (`seeded/selfmade/mutants.tsv`, patches in `seeded/selfmade/M*/`, run by
`tools/selfmade.py`; **not** independent of the author of the checks, therefore listed
separately; several of them are also caught by the repository's own tests, i.e. they are not all
"realistic" in the sense of section 8's procedure):

| id | property | change | repository tests with change | check |
|----|----------|--------|------------------------------|-------|
''' + "\n".join(self_rows) + '''

M13 (blockdiag `marginalise` without `abs()` on the scaling) is an equivalent mutant for the
positive scalings the library produces (`|p| = p`); C08 rightly stays silent.
'''
p = f"{ROOT}/DESIGN.md"
s = open(p).read()
marker = "\n\n---------------------------------------------------------------------------------------\n\n## 8. Seeded changes"
if marker in s:
    s = s[: s.index(marker)]
open(p, "w").write(s + sec)
print("section 8 written:", n, "seeds,", len(self_rows), "self-made")
