#!/bin/bash
# tools/seed_one.sh <Cxx_v> [extra check ids]: collect a sub-agent's seed from /tmp/wt/seed_<Cxx_v>/seed_out into seeded/S_<Cxx_v>,
# confirm it (tools/verify_seed.sh), run the property's quick check (+extras) against the agent's worktree, remove the worktree.
set -u
cd /verif
n=$1; shift; prop=${n%%_*}; wt=/tmp/wt/seed_$n; s=seeded/S_$n
mkdir -p $s; cp $wt/seed_out/patch.diff $wt/seed_out/demo.py $wt/seed_out/meta.json $s/ || exit 2
git -C $wt diff -- probdiffeq > /tmp/wt/cmp_$n.diff; cmp -s /tmp/wt/cmp_$n.diff $s/patch.diff || { echo "NOTE: patch.diff differs from worktree diff; using worktree diff"; cp /tmp/wt/cmp_$n.diff $s/patch.diff; }
tools/verify_seed.sh $s
for c in $prop "$@"; do
  cp evidence/$c.json /tmp/ev_$c.bak 2>/dev/null
  VERIF_REPO=$wt VERIF_WORKERS=${VERIF_WORKERS:-4} ./check $c quick > /tmp/wt/run_${n}_$c.log 2>&1; rc=$?
  cp /tmp/ev_$c.bak evidence/$c.json 2>/dev/null
  echo "S_$n $c rc=$rc violations_listed=$(grep -c '^VIOLATION' /tmp/wt/run_${n}_$c.log) :: $(grep 'first violation' /tmp/wt/run_${n}_$c.log | cut -c1-300)"
  tail -n 1 /tmp/wt/run_${n}_$c.log | cut -c1-200
done
git -C /repo worktree remove --force $wt
