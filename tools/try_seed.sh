#!/bin/bash
# tools/try_seed.sh <seed dir> <tier> <ID> [<ID>...]: apply a seeded change to /repo, run the checks, undo it.
set -u
seed="$(realpath $1)"; tier="$2"; shift 2
cd /verif
if ! git -C /repo diff --quiet; then echo "/repo not clean"; exit 2; fi
git -C /repo apply "$seed/patch.diff" || { echo "patch does not apply"; exit 2; }
trap 'git -C /repo checkout -- . ' EXIT
for id in "$@"; do
  mkdir -p /tmp/seedruns
  out=/tmp/seedruns/$(basename $seed)_$id.log
  cp evidence/$id.json /tmp/seedruns/ev_$id.bak 2>/dev/null
  ./check $id $tier > $out 2>&1; rc=$?
  cp /tmp/seedruns/ev_$id.bak evidence/$id.json 2>/dev/null
  echo "== $(basename $seed) $id rc=$rc"; grep -E "VIOLATION|HARNESS|KNOWN" $out | head -5; grep "first violation" $out | cut -c1-600; tail -1 $out | cut -c1-300
done
rm -rf /verif/replays/*/ 2>/dev/null
