#!/bin/bash
# tools/final_quick.sh: run every quick check in /verif against /repo (regenerates evidence/*.json); one line per check.
cd /verif
for id in ${IDS:-C01 C02 C03 C04 C05 C06 C07 C08 C09 C10 C11 C12 C13 C14 C15 C16 C17 C18 C19 C20}; do
  s=$(date +%s); ./check $id quick > /tmp/final_$id.log 2>&1; rc=$?
  echo "$id rc=$rc $(( $(date +%s) - s ))s $(tail -n 1 /tmp/final_$id.log | cut -c1-200)"
  grep -E "^VIOLATION|HARNESS" /tmp/final_$id.log | head -3
done
