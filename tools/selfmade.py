"""Apply each hand-written mutant of seeded/selfmade/mutants.tsv in a scratch worktree, run the repository's test suite and the
property's quick check, and print one line per mutant. (These are NOT independent of the checks' author; they complement the
sub-agent seeds.)  usage: python tools/selfmade.py [ids...]"""
import os, subprocess, sys
rows = [l.rstrip("\n").split("\t") for l in open("/verif/seeded/selfmade/mutants.tsv") if l.strip()]
want = set(sys.argv[1:])
for mid, prop, path, old, new, desc in rows:
    if want and mid not in want:
        continue
    wt = f"/tmp/wt/sm_{mid}"
    subprocess.run(["git", "-C", "/repo", "worktree", "remove", "--force", wt], capture_output=True)
    subprocess.run(["git", "-C", "/repo", "worktree", "add", "--detach", wt, "HEAD"], capture_output=True)
    f = os.path.join(wt, path)
    src = open(f).read()
    old_, new_ = old.replace("\\n", "\n"), new.replace("\\n", "\n")
    if src.count(old_) != 1:
        print(f"{mid} {prop}: pattern occurs {src.count(old_)} times - skipped"); subprocess.run(["git", "-C", "/repo", "worktree", "remove", "--force", wt]); continue
    open(f, "w").write(src.replace(old_, new_))
    diff = subprocess.run(["git", "-C", wt, "diff"], capture_output=True, text=True).stdout
    os.makedirs(f"/verif/seeded/selfmade/{mid}", exist_ok=True)
    open(f"/verif/seeded/selfmade/{mid}/patch.diff", "w").write(diff)
    env = dict(os.environ, PYTHONPATH=wt)
    t = subprocess.run(["/venv/bin/python", "-m", "pytest", "-q", "-p", "no:cacheprovider", "-n", "6", "--timeout=900"], cwd=wt, env=env, capture_output=True, text=True)
    tl = t.stdout.strip().splitlines()[-1] if t.stdout.strip() else "?"
    env2 = dict(os.environ, VERIF_REPO=wt)
    subprocess.run(["cp", f"/verif/evidence/{prop}.json", f"/tmp/ev_{prop}.bak"])
    c = subprocess.run(["/verif/check", prop, "quick"], env=env2, capture_output=True, text=True)
    subprocess.run(["cp", f"/tmp/ev_{prop}.bak", f"/verif/evidence/{prop}.json"])
    first = [l for l in c.stdout.splitlines() if l.startswith("first violation")]
    print(f"{mid} {prop} tests=[{tl}] check_rc={c.returncode} :: {desc} :: {(first[0][:200] if first else '')}", flush=True)
    subprocess.run(["git", "-C", "/repo", "worktree", "remove", "--force", wt], capture_output=True)
