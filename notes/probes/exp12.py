import jax
jax.config.update("jax_enable_x64", True)
import jax.numpy as jnp
from probdiffeq import ivpsolve, probdiffeq
from probdiffeq.backend import random as pr
def vf(u,*,t): return u*(1-u)
ode=probdiffeq.ode(vf, jacobian=probdiffeq.jacobian_materialize())
u0=jnp.asarray([0.3,0.5])
tc,_=probdiffeq.jetexpand_ode_unroll(num=2)(ode,[u0],t=0.)
orig=pr.normal
pr.normal=lambda key, shape, dtype=None: jnp.zeros(shape)
for ssmf in [probdiffeq.state_space_model_dense, probdiffeq.state_space_model_isotropic, probdiffeq.state_space_model_blockdiag]:
    ssm=ssmf(); prior=ssm.prior_wiener_integrated(tc); c=ssm.constraint_ode_ts0(ode)
    # adaptive with fixedpoint so that endings are right
    solver=probdiffeq.solver(strategy=probdiffeq.strategy_smoother_fixedpoint(),constraint=c)
    err=probdiffeq.error_residual_std(constraint=c)
    sol=ivpsolve.solve_adaptive_save_at(solver=solver,error=err)(prior,save_at=jnp.asarray([0.,0.3,0.6,1.0]),atol=1e-4,rtol=1e-4,dt0=0.1)
    smp=sol.solution_full.posterior.sample(jax.random.PRNGKey(1))
    print(ssmf.__name__[18:], 'means', sol.u.mean[0][:,0], 'zero-draw sample', smp[0][:,0], ' d1:', sol.u.mean[1][:,0], smp[1][:,0])
