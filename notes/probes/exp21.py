import jax
jax.config.update("jax_enable_x64", True)
import jax.numpy as jnp
import numpy as np, scipy.linalg as sl
from probdiffeq import probdiffeq
d=2
Lmat=np.array([[-1.0,0.3],[0.2,-2.0]])
def linop(u): return jnp.asarray(Lmat)@u
ssm=probdiffeq.state_space_model_dense()
for q in [1,2,3]:
    tc=[jnp.asarray([0.5,0.25])*(k+1) for k in range(q+1)]
    for name,prior in [('ou',ssm.prior_ornstein_uhlenbeck_integrated(linop,tc,output_scale=jnp.asarray([2.0,0.5]))),('matern',ssm.prior_matern(0.7,tc)),('iwp',ssm.prior_wiener_integrated(tc,output_scale=jnp.asarray([2.0,0.5])))]:
        for h in [1e-3,0.1,1.0,5.0]:
            tr=prior.transition(dt=h,output_scale=jnp.asarray(1.5)).preconditioner_apply()
            A=np.asarray(tr.A); Lc=np.asarray(tr.noise.cholesky_flat); Qi=Lc@Lc.T
            n=(q+1)*d
            F=np.kron(np.diag(np.ones(q),1),np.eye(d))
            if name=='ou': F[-d:,-d:]=Lmat; Lam=np.diag([2.0,0.5])
            elif name=='matern':
                D=q+1; z=np.sqrt(2*(D-0.5))/0.7
                from math import comb
                for i in range(D): F[-d:, i*d:(i+1)*d] = -comb(D,i)*z**(D-i)*np.eye(d)
                Lam=np.eye(d)
            else: Lam=np.diag([2.0,0.5])
            B=np.zeros((n,d)); B[-d:,:]=Lam
            M=np.block([[F*h, B@B.T*h],[np.zeros((n,n)), -F.T*h]]); E=sl.expm(M); eA=E[:n,:n]; G=E[:n,n:]@eA.T
            print(name,q,h,'A err %.1e'%(np.max(np.abs(A-eA))/np.max(np.abs(eA))),'Q err %.1e'%(np.max(np.abs(Qi-1.5**2*G))/np.max(np.abs(G))/1.5**2), 'b', float(np.max(np.abs(tr.noise.mean_flat))))
