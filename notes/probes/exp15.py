import jax
jax.config.update("jax_enable_x64", True)
import jax.numpy as jnp
import numpy as np
from math import factorial
from probdiffeq import ivpsolve, probdiffeq
np.set_printoptions(precision=8, linewidth=200)
q=2; d=2; n=(q+1)*d
def iwp(h):
    A=np.array([[h**(j-i)/factorial(j-i) if j>=i else 0. for j in range(q+1)] for i in range(q+1)])
    Q=np.array([[h**(2*q+1-i-j)/((2*q+1-i-j)*factorial(q-i)*factorial(q-j)) for j in range(q+1)] for i in range(q+1)])
    return np.kron(A,np.eye(d)), np.kron(Q,np.eye(d))
def f(u,t): return np.array([u[0]*(1-u[1]), 0.5*u[1]*u[0]-u[1]])
def vf(u,*,t): return jnp.stack([u[0]*(1-u[1]), 0.5*u[1]*u[0]-u[1]])
ode=probdiffeq.ode(vf, jacobian=probdiffeq.jacobian_materialize())
u0=jnp.asarray([0.5,0.25])
tc,_=probdiffeq.jetexpand_ode_unroll(num=q)(ode,[u0],t=0.)
class Ctl:
    def init(self, dt): return ()
    def apply(self, dt, s, *, error_power): return dt, ()
class Err:
    def init_error(self): return ()
    def estimate_error_norm(self, state, previous, proposed, *, dt, atol, rtol, damp): return jnp.asarray(2.0), ()
H=np.zeros((d,n)); H[:,d:2*d]=np.eye(d)
def reference(steps_end, save_at):
    # joint Gaussian over all step ends and interior checkpoints via brute force: build prior joint over union grid, condition on obs at step ends only (sequential linearisation from a forward EKF on step grid)
    grid=np.array(sorted(set(list(steps_end)+list(save_at))))
    is_step=[any(abs(g-s)<1e-12 for s in steps_end) for g in grid]
    # forward EKF over union grid, update only at step ends (prediction-only at interior points is equivalent)
    m=np.concatenate([np.asarray(c) for c in tc]); P=np.zeros((n,n))
    filt=[(m,P)]; preds=[]; As=[]
    for k in range(1,len(grid)):
        A,Q=iwp(grid[k]-grid[k-1]); mp=A@m; Pp=A@P@A.T+Q
        if is_step[k]:
            z=mp[d:2*d]-f(mp[:d],grid[k]); S=H@Pp@H.T; K=Pp@H.T@np.linalg.inv(S)
            m=mp-K@z; P=Pp-K@S@K.T
        else: m,P=mp,Pp
        preds.append((mp,Pp)); As.append(A); filt.append((m,P))
    sm=[None]*len(filt); sm[-1]=filt[-1]; Gs=[None]*(len(filt)-1)
    for k in range(len(filt)-2,-1,-1):
        mf,Pf=filt[k]; mp,Pp=preds[k]; A=As[k]
        G=Pf@A.T@np.linalg.pinv(Pp); Gs[k]=G
        ms,Ps=sm[k+1]; sm[k]=(mf+G@(ms-mp), Pf+G@(Ps-Pp)@G.T)
    return grid, filt, sm, Gs
# NOTE: interior prediction-only points linearise nothing, but the EKF at the next step end linearises at the predicted mean, which is the same as predicting over the whole step (semigroup). ok.
steps=np.arange(1,7)*0.125
save_at=np.array([0.,0.25,0.4,0.75])
grid,filt,sm,Gs=reference(list(steps), list(save_at))
idx=[int(np.argmin(np.abs(grid-s))) for s in save_at]
# joint smoothing covariance among save_at
def crosscov(i,j):  # i<j indices in grid: Cov(x_i,x_j)=G_i...G_{j-1} P_j^s
    M=np.eye(n)
    for k in range(i,j): M=M@Gs[k]
    return M@sm[j][1]
for ssmf in [probdiffeq.state_space_model_dense, probdiffeq.state_space_model_isotropic, probdiffeq.state_space_model_blockdiag]:
    ssm=ssmf(); prior=ssm.prior_wiener_integrated(tc); c=ssm.constraint_ode_ts0(ode)
    for strat,refl in [(probdiffeq.strategy_filter, filt),(probdiffeq.strategy_smoother_fixedpoint, sm)]:
        solver=probdiffeq.solver(strategy=strat(),constraint=c)
        sol=jax.jit(ivpsolve.solve_adaptive_save_at(solver=solver,error=Err(),control=Ctl()))(prior,save_at=jnp.asarray(save_at),atol=1.,rtol=1.,dt0=0.125)
        mm,cc=sol.u.to_multivariate_normal()
        em=max(np.max(np.abs(np.asarray(mm[k])-refl[i][0])) for k,i in enumerate(idx))
        ec=max(np.max(np.abs(np.asarray(cc[k])-refl[i][1]))/ (np.max(np.abs(refl[i][1]))+1e-300) for k,i in enumerate(idx) if k>0)
        print(ssmf.__name__[18:], strat.__name__[9:], 't',np.asarray(sol.t),'nsteps',np.asarray(sol.num_steps),'mean err %.2e cov relerr %.2e'%(em,ec))
    # LML timeseries on fixedpoint posterior
    data=np.stack([sm[i][0][:d] for i in idx])+0.01*np.array([[1,-1],[0.5,2],[-1,1],[2,0.3]])
    for std in [1e-2, 1.0]:
        if ssmf is probdiffeq.state_space_model_isotropic: stdarr=jnp.full((4,),std)
        else: stdarr=jnp.full((4,d),std)
        for avg in [True, False]:
            val=probdiffeq.loss_lml_timeseries(average_pdfs=avg)(jnp.asarray(data), posterior=sol.solution_full.posterior, std=stdarr)
            # reference
            E=np.zeros((d,n)); E[:,:d]=np.eye(d)
            mu=np.concatenate([E@sm[i][0] for i in idx])
            Sig=np.zeros((4*d,4*d))
            for a,ia in enumerate(idx):
                for b,ib in enumerate(idx):
                    Cab = sm[ia][1] if ia==ib else (crosscov(ia,ib) if ia<ib else crosscov(ib,ia).T)
                    Sig[a*d:(a+1)*d,b*d:(b+1)*d]=E@Cab@E.T
            Sig+=std**2*np.eye(4*d)
            r=data.reshape(-1)-mu
            ref=-0.5*r@np.linalg.solve(Sig,r)-0.5*np.linalg.slogdet(Sig)[1]-0.5*4*d*np.log(2*np.pi)
            if avg: ref=ref/4
            print('   LML std',std,'avg',avg,'imp',float(val),'ref',ref)
