import jax
jax.config.update("jax_enable_x64", True)
import jax.numpy as jnp
import numpy as onp
from probdiffeq import ivpsolve, probdiffeq
from probdiffeq.util import test_util

def vf(u,*,t): return -u
ode=probdiffeq.ode(vf, jacobian=probdiffeq.jacobian_materialize())
u0=jnp.asarray([1.0])
for q in [2,4,6]:
    tc,_=probdiffeq.jetexpand_ode_unroll(num=q)(ode,[u0],t=0.)
    ssm=probdiffeq.state_space_model_dense(); prior=ssm.prior_wiener_integrated(tc); ts0=ssm.constraint_ode_ts0(ode)
    for solverf in [probdiffeq.solver, probdiffeq.solver_mle, probdiffeq.solver_dynamic]:
        solver=solverf(strategy=probdiffeq.strategy_filter(),constraint=ts0)
        err=probdiffeq.error_residual_std(constraint=ts0)
        # natural steps
        sol=test_util.solve_adaptive_save_every_step(solver=solver,error=err)(prior,t0=0.,t1=1.0,atol=1e-6,rtol=1e-6,dt0=0.1)
        ts=onp.asarray(sol.t)
        tk=ts[len(ts)//2]
        for rem in [1e-3,1e-8,1e-12,1e-15, 0.0]:
            t1=float(tk+rem)
            s=jax.jit(ivpsolve.solve_adaptive_terminal_values(solver=solver,error=err))(prior,t0=0.,t1=t1,atol=1e-6,rtol=1e-6,dt0=0.1)
            e=float(abs(s.u.mean[0][0]-onp.exp(-t1)))
            print(q,solverf.__name__,'rem',rem,'t',float(s.t),'err/tol %.3g'%(e/(1e-6+1e-6*onp.exp(-t1))),'std',float(s.u.std[0][0]),'nsteps',int(s.num_steps), 'scale', s.output_scale)
