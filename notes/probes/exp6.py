import sys
exec(open('exp5.py').read().split("def vf_exact")[0])
def vf_exact(u,t): return [u[0]*(1-u[1]), F(1,2)*u[1]*u[0]-u[1]]
def vf(u,*,t): return jnp.stack([u[0]*(1-u[1]), 0.5*u[1]*u[0]-u[1]])
ode=probdiffeq.ode(vf)
onp.set_printoptions(linewidth=200, precision=3)
q=6; hs=F(1,100)
grid=[F(0), hs, 3*hs, 4*hs, 7*hs]
u0=jnp.asarray([0.5,0.25])
tc,_=probdiffeq.jetexpand_ode_unroll(num=q)(ode,[u0],t=0.)
m0=[F(float(x)) for c in tc for x in c]
ref=ekf0(vf_exact,m0,q,2,grid)
ssm=probdiffeq.state_space_model_dense(); prior=ssm.prior_wiener_integrated(tc); ts0=ssm.constraint_ode_ts0(ode)
sol=ivpsolve.solve_fixed_grid(solver=probdiffeq.solver(strategy=probdiffeq.strategy_filter(),constraint=ts0))(prior,grid=jnp.asarray([float(g) for g in grid]))
mm,cc=sol.u.to_multivariate_normal()
for k in [1,4]:
    m,P=ref[k]
    mr=onp.array([float(x[0]) for x in m]); Pr=onp.array([[float(x) for x in r] for r in P])
    print('ref mean', mr); print('imp mean', onp.asarray(mm[k])); print('ref sd', onp.sqrt(onp.abs(onp.diag(Pr)))); print('imp sd', onp.sqrt(onp.abs(onp.diag(cc[k]))))
    h=float(grid[k]-grid[k-1]); w=onp.repeat(onp.array([h**i/factorial(i) for i in range(q+1)]),2)
    print('scaled mean err', onp.abs(onp.asarray(mm[k])-mr)*w)
    print('scaled cov err', onp.max(onp.abs(onp.asarray(cc[k])-Pr)*onp.outer(w,w)), 'scaled cov max', onp.max(onp.abs(Pr)*onp.outer(w,w)))
