import jax
jax.config.update("jax_enable_x64", True)
import jax.numpy as jnp
import numpy as onp, scipy.linalg as sl
from probdiffeq import ivpsolve, probdiffeq
from probdiffeq.util import gram_util, test_util
from probdiffeq.backend import linalg

# C09: exp_gram for each order
rng = onp.random.default_rng(0)
n=4
A0 = rng.standard_normal((n,n)); B0 = rng.standard_normal((n,2))
def ref(A,B):
    M = onp.block([[A, B@B.T],[onp.zeros_like(A), -A.T]])
    E = sl.expm(M); eA=E[:n,:n]; return eA, E[:n,n:]@eA.T
for scale in [0.05, 0.5, 2.0, 10.0]:
    A = A0*scale; B=B0
    eAr, Gr = ref(A,B)
    for name in ["pade_and_legendre_3","pade_and_legendre_5","pade_and_legendre_7","pade_and_legendre_9","pade_and_legendre_13"]:
        pl = getattr(gram_util,name)()
        eA, L = gram_util.exp_gram_cholesky(pade_legendre=pl, solve=linalg.solve_lu)(jnp.asarray(A), jnp.asarray(B))
        print(scale, name, 'eA err', float(jnp.max(jnp.abs(eA-eAr))/onp.max(onp.abs(eAr))), 'G err', float(jnp.max(jnp.abs(L@L.T-Gr))/onp.max(onp.abs(Gr))))

# C10: time-dependent vf
def vf(u, *, t):
    return u*u + t*t*u + t
ode = probdiffeq.ode(vf)
u0 = jnp.asarray([0.5])
for name, alg in [("padded", probdiffeq.jetexpand_ode_padded_scan(num=4)), ("unroll", probdiffeq.jetexpand_ode_unroll(num=4)), ("jvp", probdiffeq.jetexpand_ode_via_jvp(num=4)), ("doubling", probdiffeq.jetexpand_ode_doubling_unroll(num_doublings=3))]:
    tc,_ = alg(ode, [u0], t=0.7)
    print(name, [float(x[0]) for x in tc][:5])

# C18
def vf2(u,*,t): return -u+1.0
ode2 = probdiffeq.ode(vf2)
print('dt0 zero', ivpsolve.dt0(ode2, (jnp.zeros(2),), t=0.0))
print('dt0_adaptive zero', ivpsolve.dt0_adaptive(ode2, (jnp.zeros(2),), 0.0, error_contraction_rate=3, rtol=1e-3, atol=1e-3))
