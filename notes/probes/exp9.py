import jax, time, itertools
jax.config.update("jax_enable_x64", True)
import jax.numpy as jnp
import numpy as onp
from probdiffeq import ivpsolve, probdiffeq

class ScriptControl:
    """dt_next = factors[k]*dt on accept ; on reject uses rej_factor. counter state."""
    def __init__(self, factors): self.factors=factors
    def init(self, dt): return jnp.asarray(0)
    def apply(self, dt, k, *, error_power):
        f = jnp.where(error_power>=1.0, jnp.where(k<self.factors.shape[0], self.factors[jnp.minimum(k, self.factors.shape[0]-1)], 1.0), 0.5)
        return f*dt, k+1
class ProfileError:
    def __init__(self, breaks, vals): self.breaks=breaks; self.vals=vals
    def init_error(self): return ()
    def estimate_error_norm(self, state, previous, proposed, *, dt, atol, rtol, damp):
        idx=jnp.searchsorted(self.breaks, previous.t, side='right')
        h=self.vals[idx]
        return h/dt, ()
def vf(u,*,t): return u*(1-u)
ode=probdiffeq.ode(vf, jacobian=probdiffeq.jacobian_materialize())
u0=jnp.asarray([0.3,0.5])
tc,_=probdiffeq.jetexpand_ode_unroll(num=3)(ode,[u0],t=0.)
ssm=probdiffeq.state_space_model_dense(); prior=ssm.prior_wiener_integrated(tc)
c=ssm.constraint_ode_ts1(ode)
solver=probdiffeq.solver_mle(strategy=probdiffeq.strategy_smoother_fixedpoint(),constraint=c)
@jax.jit
def run(factors, breaks, vals, save_at, dt0):
    sol=ivpsolve.solve_adaptive_save_at(solver=solver,error=ProfileError(breaks,vals),control=ScriptControl(factors))(prior,save_at=save_at,atol=1.,rtol=1.,dt0=dt0)
    return sol.t, sol.u.mean[0], sol.num_steps
t=time.time()
out=run(jnp.asarray([1.,2.,0.5,1.]), jnp.asarray([0.5]), jnp.asarray([0.25,0.125]), jnp.asarray([0.,0.25,0.3,1.0]), 0.5)
jax.block_until_ready(out); print('compile+run',time.time()-t)
t=time.time(); n=0
for fs in itertools.product([0.5,1.,2.],repeat=4):
    out=run(jnp.asarray(fs), jnp.asarray([0.5]), jnp.asarray([0.25,0.125]), jnp.asarray([0.,0.25,0.3,1.0]), 0.5); n+=1
jax.block_until_ready(out); print(n,'runs',time.time()-t); print(out)
