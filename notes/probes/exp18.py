import jax
jax.config.update("jax_enable_x64", True)
import jax.numpy as jnp
import numpy as np
from probdiffeq import probdiffeq
rng=np.random.default_rng(1)
D=5
def pywhile(cond, body, init):
    s=init
    while cond(s): s=body(s)
    return s
for rows in [1,3,4]:
  for kind in ['dense','rank4','rank1','diag']:
    J=rng.standard_normal((rows,D)); b=rng.standard_normal(rows); m=rng.standard_normal(D)
    L=rng.standard_normal((D,D))
    if kind=='rank4': L[:, -1]=0
    if kind=='rank1': L[:,1:]=0
    if kind=='diag': L=np.diag(10.0**np.linspace(-3,3,D))
    C=L@L.T
    for eps_nl in [0.0, 0.1]:
        def con(x): return jnp.asarray(J)@x+jnp.asarray(b)+eps_nl*(x[:rows]**2)
        nl=probdiffeq.lstsq_constrained_gauss_newton(maxiter=20,tol=1e-10, while_loop=pywhile)
        x,stats=nl(con, jnp.asarray(m), jnp.asarray(m), jnp.asarray(L))
        x=np.asarray(x)
        fx=np.asarray(con(jnp.asarray(x)))
        Jx=np.asarray(jax.jacfwd(con)(jnp.asarray(x)))
        # optimality: x-m in range(C Jx^T)
        B=C@Jx.T
        coef=np.linalg.lstsq(B,x-m,rcond=None)[0]; resid=np.linalg.norm(B@coef-(x-m))
        line='rows %d %s nl %.1f iters %d |f| %.1e |dx| %.1e range-resid %.1e'%(rows,kind,eps_nl,int(stats['iters']),np.linalg.norm(fx),np.linalg.norm(stats['final_increment']),resid)
        if eps_nl==0:
            xr=m-C@J.T@np.linalg.pinv(J@C@J.T)@(J@m+b)
            line+=' affine err %.1e'%np.linalg.norm(x-xr)
        print(line)
