import jax, time
jax.config.update("jax_enable_x64", True)
import jax.numpy as jnp
import numpy as onp
from probdiffeq import ivpsolve, probdiffeq
def vf(u,*,t): return u*(1-u)
ode=probdiffeq.ode(vf, jacobian=probdiffeq.jacobian_materialize())
u0=jnp.asarray([0.3])
truth=lambda t: 0.3*onp.exp(t)/(0.7+0.3*onp.exp(t))
for ts1 in [False, True]:
  for strat in [probdiffeq.strategy_filter, probdiffeq.strategy_smoother_fixedinterval]:
    for nd in [1,2,3,4,5,6]:
        tc,_=probdiffeq.jetexpand_ode_unroll(num=nd)(ode,[u0],t=0.)
        ssm=probdiffeq.state_space_model_dense(); prior=ssm.prior_wiener_integrated(tc)
        c=ssm.constraint_ode_ts1(ode) if ts1 else ssm.constraint_ode_ts0(ode)
        solver=probdiffeq.solver(strategy=strat(),constraint=c)
        errs=[]
        for N in [4,8,16,32,64]:
            grid=jnp.linspace(0.,2.,N+1)
            sol=jax.jit(ivpsolve.solve_fixed_grid(solver=solver))(prior,grid=grid)
            errs.append(float(abs(sol.u.mean[0][-1,0]-truth(2.0))))
        rates=[onp.log2(errs[i]/errs[i+1]) for i in range(len(errs)-1)]
        print('ts1' if ts1 else 'ts0', strat.__name__[9:], 'num_derivs',nd,'errs',['%.1e'%e for e in errs],'rates',['%.2f'%r for r in rates])
