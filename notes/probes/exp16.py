import jax
jax.config.update("jax_enable_x64", True)
import jax.numpy as jnp
from probdiffeq import ivpsolve, probdiffeq
from probdiffeq.backend import linalg
import probdiffeq._probdiffeq.ssm_impl_isotropic as iso
# isotropic residual_whitened_rms_flat uses vector_norm(reshape) ; dense uses vector_norm. Check grads of each primitive at the values in question
N=iso.IsotropicNormal
def f(p):
    rv=N(jnp.zeros((1,2))+p*jnp.asarray([[1.,2.]]), jnp.asarray([[0.5]]), None)
    return rv.residual_whitened_rms_flat(jnp.zeros((1,2)))
print('iso rms grad', jax.grad(f)(1.3), jax.jacfwd(f)(1.3))
# hypot at (0,x)
g=lambda x: jnp.hypot(jnp.sqrt(0.0/(0.0+1))*0.0, jnp.sqrt(1/(0.0+1))*x)
print('hypot grad rev', jax.grad(g)(0.7), 'fwd', jax.jacfwd(g)(0.7))
g2=lambda x: jnp.hypot(jnp.zeros(()) , x)
print('hypot(0,x) grad', jax.grad(g2)(0.7))
g3=lambda x: jnp.hypot(jnp.zeros((2,)) , x*jnp.ones((2,))).sum()
print('hypot vec', jax.grad(g3)(0.7))
# std of isotropic: vmap(vector_norm)(cholesky) rows - with zero rows -> grad nan?
h=lambda x: jnp.sum(jax.vmap(jnp.linalg.norm)(x*jnp.asarray([[0.,0.],[1.,0.]])))
print('norm of zero row grad', jax.grad(h)(0.7), jax.jacfwd(h)(0.7))
