import time
import jax
jax.config.update("jax_enable_x64", True)
import jax.numpy as jnp
import numpy as onp
from probdiffeq import ivpsolve, probdiffeq

def vf(u, *, t):
    return u*(1-u)
ode = probdiffeq.ode(vf, jacobian=probdiffeq.jacobian_materialize())
u0 = jnp.asarray([0.3, 0.5])
t0=0.
tc,_ = probdiffeq.jetexpand_ode_unroll(num=2)(ode,[u0],t=t0)
for ssmf in [probdiffeq.state_space_model_dense, probdiffeq.state_space_model_isotropic, probdiffeq.state_space_model_blockdiag]:
    ssm = ssmf()
    prior = ssm.prior_wiener_integrated(tc)
    ts0 = ssm.constraint_ode_ts0(ode)
    grid = jnp.asarray([0., 0.1, 0.25, 0.5])
    t=time.time()
    solf = ivpsolve.solve_fixed_grid(solver=probdiffeq.solver(strategy=probdiffeq.strategy_filter(), constraint=ts0))(prior, grid=grid)
    print('filter time', time.time()-t)
    t=time.time()
    sols = ivpsolve.solve_fixed_grid(solver=probdiffeq.solver(strategy=probdiffeq.strategy_smoother_fixedinterval(), constraint=ts0))(prior, grid=grid)
    print('smoother time', time.time()-t)
    mf, cf = solf.u.to_multivariate_normal()
    ms, cs = sols.u.to_multivariate_normal()
    print(ssmf.__name__)
    print(' filter last mean', mf[-1])
    print(' smooth last mean', ms[-1])
    print(' filter last var', jnp.diag(cf[-1]))
    print(' smooth last var', jnp.diag(cs[-1]))
    print(' filter first mean', mf[0], ' smooth first', ms[0])
