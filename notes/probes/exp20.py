import jax, itertools
jax.config.update("jax_enable_x64", True)
import jax.numpy as jnp
import numpy as np
from math import factorial
from probdiffeq import ivpsolve, probdiffeq
q=2; d=2; n=(q+1)*d
def iwp(h):
    A=np.array([[h**(j-i)/factorial(j-i) if j>=i else 0. for j in range(q+1)] for i in range(q+1)])
    Q=np.array([[h**(2*q+1-i-j)/((2*q+1-i-j)*factorial(q-i)*factorial(q-j)) for j in range(q+1)] for i in range(q+1)])
    return np.kron(A,np.eye(d)), np.kron(Q,np.eye(d))
def f(u,t): return np.array([u[0]*(1-u[1])+t, 0.5*u[1]*u[0]-u[1]*t])
def Jf(u,t): return np.array([[1-u[1], -u[0]],[0.5*u[1], 0.5*u[0]-t]])
def vf(u,*,t): return jnp.stack([u[0]*(1-u[1])+t, 0.5*u[1]*u[0]-u[1]*t])
ode=probdiffeq.ode(vf, jacobian=probdiffeq.jacobian_materialize())
u0=jnp.asarray([0.5,0.25])
tc,_=probdiffeq.jetexpand_ode_unroll(num=q)(ode,[u0],t=0.)
grid=np.array([0.,0.1,0.3,0.35])
E0=np.zeros((d,n)); E0[:,:d]=np.eye(d); E1=np.zeros((d,n)); E1[:,d:2*d]=np.eye(d)
def ref(structure, ts1, calib, damp, p0std, relin=False):
    m=np.concatenate([np.asarray(c) for c in tc]); P=np.eye(n)*p0std**2
    out=[(m,P,1.0)]; r2s=[]
    for t0,t1 in zip(grid[:-1],grid[1:]):
        A,Q=iwp(t1-t0); mp=A@m
        def lin(mlin):
            if ts1:
                J=Jf(mlin[:d],t1)
                if structure=='iso': J=np.trace(J)/d*np.eye(d)
                if structure=='bd': J=np.diag(np.diag(J))
                Hh=E1-J@E0; b=(mlin[d:2*d]-f(mlin[:d],t1))-Hh@mlin
            else:
                Hh=E1; b=-f(mlin[:d],t1)
            return Hh,b
        Hh,b=lin(mp)
        R=damp**2*np.eye(d)
        sig2=1.0
        if calib=='dynamic':
            S0=Hh@Q@Hh.T+R; z0=Hh@mp+b
            if structure=='bd': sig2v=z0**2/np.diag(S0); Qs=np.kron(np.ones((q+1,q+1)),np.diag(sig2v))*Q
            else: sig2=z0@np.linalg.solve(S0,z0)/d; Qs=sig2*Q
        else: Qs=Q
        Pp=A@P@A.T+Qs
        if relin: Hh,b=lin(mp)
        S=Hh@Pp@Hh.T+R; z=Hh@mp+b; K=Pp@Hh.T@np.linalg.inv(S)
        if structure=='bd': r2s.append(z**2/np.diag(S))
        else: r2s.append(z@np.linalg.solve(S,z)/d)
        m=mp-K@z; P=Pp-K@S@K.T
        out.append((m,P, (np.sqrt(sig2v) if (calib=='dynamic' and structure=='bd') else np.sqrt(sig2))))
    if calib=='mle':
        s2=np.mean(r2s,axis=0)/len(r2s)
        if structure=='bd':
            out=[(m,np.kron(np.ones((q+1,q+1)),np.diag(s2))*P,np.sqrt(s2)) for m,P,_ in out]
        else: out=[(m,s2*P,np.sqrt(s2)) for m,P,_ in out]
    return out
worst={}
for (ssmf,structure) in [(probdiffeq.state_space_model_dense,'dense'),(probdiffeq.state_space_model_isotropic,'iso'),(probdiffeq.state_space_model_blockdiag,'bd')]:
  for ts1 in [False,True]:
    for calib,solverf in [('none',probdiffeq.solver),('mle',probdiffeq.solver_mle),('dynamic',probdiffeq.solver_dynamic)]:
      for damp in [0.0,1e-2]:
        for p0 in [0.0,1e-3]:
            ssm=ssmf(); prior=ssm.prior_wiener_integrated(tc,is_exact=(p0==0.0),inexact_eps=p0 if p0>0 else 1e-6)
            c=ssm.constraint_ode_ts1(ode) if ts1 else ssm.constraint_ode_ts0(ode)
            sol=ivpsolve.solve_fixed_grid(solver=solverf(strategy=probdiffeq.strategy_filter(),constraint=c))(prior,grid=jnp.asarray(grid),damp=damp)
            mm,cc=sol.u.to_multivariate_normal()
            r=ref(structure,ts1,calib,damp,p0)
            em=max(np.max(np.abs(np.asarray(mm[k])-r[k][0])) for k in range(len(r)))
            ec=max(np.max(np.abs(np.asarray(cc[k])-r[k][1]))/(np.max(np.abs(r[k][1]))+1e-300) for k in range(1,len(r)))
            es=max(np.max(np.abs(np.asarray(sol.output_scale[k])-r[k][2])/np.abs(r[k][2])) for k in range(1,len(r)))
            flag='' if max(em,ec,es)<1e-8 else '   <<<<<<'
            print(structure,'ts1' if ts1 else 'ts0',calib,'damp',damp,'p0',p0,'mean %.1e cov %.1e scale %.1e'%(em,ec,es),flag)
