import time
from fractions import Fraction as F
from math import factorial
import jax
jax.config.update("jax_enable_x64", True)
import jax.numpy as jnp
import numpy as onp
from probdiffeq import ivpsolve, probdiffeq

# exact matrices as lists of lists
def matmul(A,B): return [[sum(a*b for a,b in zip(r,c)) for c in zip(*B)] for r in A]
def T(A): return [list(r) for r in zip(*A)]
def add(A,B): return [[a+b for a,b in zip(r,s)] for r,s in zip(A,B)]
def sub(A,B): return [[a-b for a,b in zip(r,s)] for r,s in zip(A,B)]
def inv(A):
    n=len(A); M=[list(r)+[F(int(i==j)) for j in range(n)] for i,r in enumerate(A)]
    for c in range(n):
        p=next(r for r in range(c,n) if M[r][c]!=0); M[c],M[p]=M[p],M[c]
        pv=M[c][c]; M[c]=[x/pv for x in M[c]]
        for r in range(n):
            if r!=c and M[r][c]!=0:
                f=M[r][c]; M[r]=[x-f*y for x,y in zip(M[r],M[c])]
    return [r[n:] for r in M]
def kron(A,B): return [[a*b for a in ra for b in rb] for ra in A for rb in B]
def eye(n): return [[F(int(i==j)) for j in range(n)] for i in range(n)]

def iwp(q,h):
    A=[[ (h**(j-i)/factorial(j-i) if j>=i else F(0)) for j in range(q+1)] for i in range(q+1)]
    Q=[[ h**(2*q+1-i-j)/((2*q+1-i-j)*factorial(q-i)*factorial(q-j)) for j in range(q+1)] for i in range(q+1)]
    return A,Q

def ekf0(vf_exact, m0, q, d, grid):
    # state ordering coefficient-major: index i*d + k
    n=(q+1)*d
    m=[[x] for x in m0]; P=[[F(0)]*n for _ in range(n)]
    H=[[F(int(c==1*d+k)) for c in range(n)] for k in range(d)]
    out=[(m,P)]
    for t0,t1 in zip(grid[:-1],grid[1:]):
        h=t1-t0
        a,qq=iwp(q,h); A=kron(a,eye(d)); Q=kron(qq,eye(d))
        m=matmul(A,m); P=add(matmul(matmul(A,P),T(A)),Q)
        u=[m[k][0] for k in range(d)]
        f=vf_exact(u,t1)
        z=[[m[d+k][0]-f[k]] for k in range(d)]
        S=matmul(matmul(H,P),T(H)); K=matmul(matmul(P,T(H)),inv(S))
        m=sub(m,matmul(K,z)); P=sub(P,matmul(matmul(K,S),T(K)))
        out.append((m,P))
    return out

def vf_exact(u,t): return [u[0]*(1-u[1]), F(1,2)*u[1]*u[0]-u[1]]
def vf(u,*,t): return jnp.stack([u[0]*(1-u[1]), 0.5*u[1]*u[0]-u[1]])
ode=probdiffeq.ode(vf)
for q in [2,4,6,8]:
  for hs in [F(1,10), F(1,100), F(1,1000)]:
    grid=[F(0), hs, 3*hs, 4*hs, 7*hs]
    u0=jnp.asarray([0.5,0.25])
    tc,_=probdiffeq.jetexpand_ode_unroll(num=q)(ode,[u0],t=0.)
    # exact tcoeffs: trust float tc are dyadic? use rational of float
    m0=[F(float(x)) for c in tc for x in c]
    t=time.time(); ref=ekf0(vf_exact,m0,q,2,grid); tr=time.time()-t
    for ssmf in [probdiffeq.state_space_model_dense, probdiffeq.state_space_model_isotropic, probdiffeq.state_space_model_blockdiag]:
        ssm=ssmf(); prior=ssm.prior_wiener_integrated(tc); ts0=ssm.constraint_ode_ts0(ode)
        sol=ivpsolve.solve_fixed_grid(solver=probdiffeq.solver(strategy=probdiffeq.strategy_filter(),constraint=ts0))(prior,grid=jnp.asarray([float(g) for g in grid]))
        mm,cc=sol.u.to_multivariate_normal()
        worst_m=0; worst_c=0
        for k,(m,P) in enumerate(ref):
            mr=onp.array([float(x[0]) for x in m]); Pr=onp.array([[float(x) for x in r] for r in P])
            sd=onp.sqrt(onp.abs(onp.diag(Pr)))+1e-300
            scale_m=onp.abs(mr)+sd
            # scale per coefficient: use norm over d of that coefficient
            em=onp.max(onp.abs(onp.asarray(mm[k])-mr)/(onp.abs(mr)+1e-300+ sd))
            ec=onp.max(onp.abs(onp.asarray(cc[k])-Pr)/(onp.outer(sd,sd)+1e-300)) if k>0 else 0
            worst_m=max(worst_m,em); worst_c=max(worst_c,ec)
        print(q,float(hs),ssmf.__name__[18:],'mean rel err %.2e cov corr-scaled err %.2e'%(worst_m,worst_c),'ref time %.2f'%tr)
