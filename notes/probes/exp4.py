import time, collections
import jax
jax.config.update("jax_enable_x64", True)
import jax.numpy as jnp
from probdiffeq import ivpsolve

S = collections.namedtuple("S", ["t", "n", "uid"])
LOG = []
class Solver:
    is_suitable_for_save_at = True
    is_suitable_for_save_every_step = True
    def __init__(self): self.c = 0
    def init(self, t, u, *, damp):
        LOG.append(("init", float(t))); return S(jnp.asarray(t), jnp.asarray(0), jnp.asarray(0))
    def step(self, state, *, dt, damp):
        self.c += 1
        LOG.append(("step", float(state.t), float(dt), int(state.uid), self.c))
        return S(state.t + dt, state.n + 1, jnp.asarray(self.c))
    def interpolate_fwd(self, *, t, interp_from, interp_to):
        self.c += 1
        LOG.append(("interp", float(t), float(interp_from.t), float(interp_to.t)))
        from probdiffeq._probdiffeq.utilities import InterpResult
        sol = S(jnp.asarray(t), interp_to.n, jnp.asarray(self.c))
        return sol, InterpResult(step_from=interp_to, interp_from=S(jnp.asarray(t), interp_from.n, interp_from.uid))
    def interpolate_fwd_at_t1(self, *, t, interp_from, interp_to):
        LOG.append(("at_t1", float(t), float(interp_from.t), float(interp_to.t)))
        from probdiffeq._probdiffeq.utilities import InterpResult
        return interp_to, InterpResult(step_from=interp_to, interp_from=interp_to)
    def userfriendly_output(self, *, solution0, solution, solution1):
        return solution0, solution, solution1
class Err:
    def __init__(self, h): self.h = h
    def init_error(self): return ()
    def estimate_error_norm(self, state, previous, proposed, *, dt, atol, rtol, damp):
        p = self.h(float(previous.t)) / float(dt)
        LOG.append(("err", float(previous.t), float(dt), p))
        return jnp.asarray(p), ()
t=time.time()
with jax.disable_jit():
    solve = ivpsolve.solve_adaptive_save_at(solver=Solver(), error=Err(lambda t: 0.3 if t < 0.5 else 0.05), clip_dt=False)
    out = solve(None, save_at=jnp.asarray([0., 0.25, 0.5, 1.0]), atol=1e-3, rtol=1e-3, dt0=1.0)
print(time.time()-t)
for l in LOG: print(l)
print(out[1])
