# float64 numpy reference EKF0/RTS + MLE scale + LML, compare with implementation (q=2,d=2)
import jax
jax.config.update("jax_enable_x64", True)
import jax.numpy as jnp
import numpy as np
from math import factorial
from probdiffeq import ivpsolve, probdiffeq
np.set_printoptions(precision=6, linewidth=200)
q=2; d=2
def iwp(h):
    A=np.array([[h**(j-i)/factorial(j-i) if j>=i else 0. for j in range(q+1)] for i in range(q+1)])
    Q=np.array([[h**(2*q+1-i-j)/((2*q+1-i-j)*factorial(q-i)*factorial(q-j)) for j in range(q+1)] for i in range(q+1)])
    return np.kron(A,np.eye(d)), np.kron(Q,np.eye(d))
def f(u,t): return np.array([u[0]*(1-u[1]), 0.5*u[1]*u[0]-u[1]])
def vf(u,*,t): return jnp.stack([u[0]*(1-u[1]), 0.5*u[1]*u[0]-u[1]])
ode=probdiffeq.ode(vf, jacobian=probdiffeq.jacobian_materialize())
u0=jnp.asarray([0.5,0.25])
tc,_=probdiffeq.jetexpand_ode_unroll(num=q)(ode,[u0],t=0.)
grid=np.array([0.,0.1,0.3,0.4,0.7])
n=(q+1)*d
H=np.zeros((d,n)); H[:,d:2*d]=np.eye(d)
m=np.concatenate([np.asarray(c) for c in tc]); P=np.zeros((n,n))
filt=[(m,P)]; preds=[]; As=[]; r2=[]
for t0,t1 in zip(grid[:-1],grid[1:]):
    A,Q=iwp(t1-t0); mp=A@m; Pp=A@P@A.T+Q
    z=mp[d:2*d]-f(mp[:d],t1); S=H@Pp@H.T; K=Pp@H.T@np.linalg.inv(S)
    r2.append(z@np.linalg.solve(S,z)/d)
    m=mp-K@z; P=Pp-K@S@K.T
    preds.append((mp,Pp)); As.append(A); filt.append((m,P))
sig2=np.mean(r2)
# RTS
sm=[None]*len(filt); sm[-1]=filt[-1]; Gs=[None]*(len(filt)-1)
for k in range(len(filt)-2,-1,-1):
    mf,Pf=filt[k]; mp,Pp=preds[k]; A=As[k]
    G=Pf@A.T@np.linalg.pinv(Pp); Gs[k]=G
    ms,Ps=sm[k+1]; sm[k]=(mf+G@(ms-mp), Pf+G@(Ps-Pp)@G.T)
print('ref MLE sigma (with 1/sqrt(N) corr):', np.sqrt(sig2)/np.sqrt(len(r2)), ' without:', np.sqrt(sig2))
for ssmf in [probdiffeq.state_space_model_dense, probdiffeq.state_space_model_isotropic, probdiffeq.state_space_model_blockdiag]:
    ssm=ssmf(); prior=ssm.prior_wiener_integrated(tc); c=ssm.constraint_ode_ts0(ode)
    sol=ivpsolve.solve_fixed_grid(solver=probdiffeq.solver_mle(strategy=probdiffeq.strategy_filter(),constraint=c))(prior,grid=jnp.asarray(grid))
    print(ssmf.__name__[18:],'imp scale', np.asarray(sol.output_scale)[-1], 'filter mean err', np.max(np.abs(np.asarray(sol.u.to_multivariate_normal()[0][-1])-filt[-1][0])), 'cov ratio', (np.asarray(sol.u.to_multivariate_normal()[1][-1])[0,0]/filt[-1][1][0,0]))
    sol2=ivpsolve.solve_fixed_grid(solver=probdiffeq.solver_mle(strategy=probdiffeq.strategy_filter(),constraint=c, correct_asymptotic_underconfidence=False))(prior,grid=jnp.asarray(grid))
    print('   no-corr scale', np.asarray(sol2.output_scale)[-1])
# Smoother via adaptive fixedpoint unaffected by F1? use fixed-interval but compare all but... just print
ssm=probdiffeq.state_space_model_dense(); prior=ssm.prior_wiener_integrated(tc); c=ssm.constraint_ode_ts0(ode)
sol=ivpsolve.solve_fixed_grid(solver=probdiffeq.solver(strategy=probdiffeq.strategy_smoother_fixedinterval(),constraint=c))(prior,grid=jnp.asarray(grid))
mm,cc=sol.u.to_multivariate_normal()
print('smoother mean u at grid (imp):', np.asarray(mm)[:,0]); print('smoother mean u at grid (ref):', np.array([s[0][0] for s in sm]))
# LML with reference on the implementation's own (buggy) posterior is confounded; instead test LML on posterior from a scripted fixedpoint run later.
