import jax, time
jax.config.update("jax_enable_x64", True)
import jax.numpy as jnp
import numpy as np
from probdiffeq import probdiffeq, ivpsolve
d=2
def make_vf(C):  # C: (d, d+2, d+2, d+2) coefficient tensor over z=(1,u_1..u_d,t)
    def vf(u,*,t):
        z=jnp.concatenate([jnp.ones((1,)), u, jnp.reshape(t,(1,))])
        return jnp.einsum('kijl,i,j,l->k', C, z, z, z)
    return vf
@jax.jit
def tcoeffs(C,u0,t0):
    ode=probdiffeq.ode(make_vf(C), jacobian=probdiffeq.jacobian_materialize())
    out=[]
    for alg in [probdiffeq.jetexpand_ode_padded_scan(num=4), probdiffeq.jetexpand_ode_unroll(num=4), probdiffeq.jetexpand_ode_via_jvp(num=4)]:
        tc,_=alg(ode,[u0],t=t0); out.append(jnp.stack(tc))
    return out
@jax.jit
def solve(C,u0,grid):
    ode=probdiffeq.ode(make_vf(C), jacobian=probdiffeq.jacobian_materialize())
    tc,_=probdiffeq.jetexpand_ode_unroll(num=3)(ode,[u0],t=grid[0])
    ssm=probdiffeq.state_space_model_dense(); prior=ssm.prior_wiener_integrated(tc); c=ssm.constraint_ode_ts1(ode)
    sol=ivpsolve.solve_fixed_grid(solver=probdiffeq.solver_mle(strategy=probdiffeq.strategy_filter(),constraint=c))(prior,grid=grid)
    return sol.u.to_multivariate_normal(), sol.output_scale
C=np.zeros((d,d+2,d+2,d+2)); C[0,1,1,0]=1.0; C[0,3,3,1]=1.0; C[0,3,0,0]=1.0; C[1,1,2,0]=-0.5
t=time.time(); o=tcoeffs(jnp.asarray(C), jnp.asarray([0.5,0.25]), 0.7); jax.block_until_ready(o); print('compile',time.time()-t)
for x in o: print(np.asarray(x)[:,0])
t=time.time()
for k in range(100):
    C2=C.copy(); C2[1,2,2,3]=k*0.01
    o=tcoeffs(jnp.asarray(C2), jnp.asarray([0.5,0.25]), 0.7)
jax.block_until_ready(o); print('100 tables', time.time()-t)
t=time.time(); r=solve(jnp.asarray(C), jnp.asarray([0.5,0.25]), jnp.asarray([0.,0.1,0.3,0.35])); jax.block_until_ready(r); print('solve compile',time.time()-t)
t=time.time()
for k in range(100):
    C2=C.copy(); C2[1,2,2,3]=k*0.01
    r=solve(jnp.asarray(C2), jnp.asarray([0.5,0.25]), jnp.asarray([0.,0.1*(1+k*0.01),0.3,0.35]))
jax.block_until_ready(r); print('100 solves', time.time()-t)
