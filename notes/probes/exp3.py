import jax
jax.config.update("jax_enable_x64", True)
import jax.numpy as jnp
import numpy as onp
from probdiffeq import ivpsolve, probdiffeq
from probdiffeq.backend import linalg
from probdiffeq.util import cholesky_util

# qr_r jvp directly
rng = onp.random.default_rng(0)
M = jnp.asarray(rng.standard_normal((5,3))); dM = jnp.asarray(rng.standard_normal((5,3)))
R, Rdot = jax.jvp(linalg.qr_r, (M,), (dM,))
eps=1e-6
fd = (linalg.qr_r(M+eps*dM)-linalg.qr_r(M-eps*dM))/(2*eps)
print('qr_r jvp vs fd:\n', Rdot, '\n', fd)
# gram derivative
g = lambda M: linalg.qr_r(M).T@linalg.qr_r(M)
print('gram jvp err', jnp.max(jnp.abs(jax.jvp(g,(M,),(dM,))[1] - (dM.T@M+M.T@dM))))

# revert_conditional derivative: gain and R_XY gram
def rc(s):
    R_X = jnp.asarray(rng0[0]) * (1+s); R_X_F = jnp.asarray(rng0[1])*(1+2*s); R_YX=jnp.asarray(rng0[2])*(1-s)
    r_obs,(r_cor,gain)=cholesky_util.revert_conditional(R_X_F=R_X_F,R_X=R_X,R_YX=R_YX,solve_triu=linalg.solve_triu)
    return r_obs.T@r_obs, r_cor.T@r_cor, gain
rng0 = [rng.standard_normal((3,3)), rng.standard_normal((3,2)), rng.standard_normal((2,2))]
out, tang = jax.jvp(rc,(0.0,),(1.0,))
fdv = jax.tree.map(lambda a,b:(a-b)/(2e-6), rc(1e-6), rc(-1e-6))
for a,b in zip(tang, fdv): print('revert jvp err', float(jnp.max(jnp.abs(a-b))), float(jnp.max(jnp.abs(b))))

# solver gradient
def vf(u, *, t, p):
    return p*u*(1-u)
def loss(p, ssmf, strat, solverf, ts1):
    ode = probdiffeq.ode(lambda u,*,t: vf(u,t=t,p=p), jacobian=probdiffeq.jacobian_materialize())
    u0 = jnp.asarray([0.3, 0.5])
    tc,_ = probdiffeq.jetexpand_ode_unroll(num=2)(ode,[u0],t=0.)
    ssm = ssmf()
    prior = ssm.prior_wiener_integrated(tc)
    c = ssm.constraint_ode_ts1(ode) if ts1 else ssm.constraint_ode_ts0(ode)
    grid = jnp.asarray([0., 0.1, 0.25, 0.5])
    sol = ivpsolve.solve_fixed_grid(solver=solverf(strategy=strat(), constraint=c))(prior, grid=grid)
    return jnp.sum(sol.u.mean[0][-1]) , jnp.sum(sol.u.std[0][-1]), jnp.sum(sol.output_scale[-1])
for ssmf in [probdiffeq.state_space_model_dense, probdiffeq.state_space_model_isotropic, probdiffeq.state_space_model_blockdiag]:
  for solverf in [probdiffeq.solver, probdiffeq.solver_mle]:
    for strat in [probdiffeq.strategy_filter, probdiffeq.strategy_smoother_fixedinterval]:
      for ts1 in [False, True]:
        f = lambda p: loss(p, ssmf, strat, solverf, ts1)
        jf = jax.jacfwd(f)(1.3); jr = jax.jacrev(f)(1.3)
        e=1e-6; fd = jax.tree.map(lambda a,b:(a-b)/(2*e), f(1.3+e), f(1.3-e))
        print(ssmf.__name__[18:], solverf.__name__, strat.__name__[9:], 'ts1' if ts1 else 'ts0', [f"{float(x):.6g}" for x in jf], [f"{float(x):.6g}" for x in jr], [f"{float(x):.6g}" for x in fd])
