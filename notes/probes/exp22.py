import time
exec(open('/verif/notes/probes/exp4.py').read().split("t=time.time()")[0])
import jax, jax.numpy as jnp
from probdiffeq import ivpsolve
with jax.disable_jit():
    solve = ivpsolve.solve_adaptive_save_at(solver=Solver(), error=Err(lambda t: 0.3 if t < 0.5 else 0.05), clip_dt=False)
    out = solve(None, save_at=jnp.asarray([0., 0.25, 0.5, 1.0]), atol=1e-3, rtol=1e-3, dt0=1.0)
    t=time.time(); N=20
    for _ in range(N):
        LOG.clear()
        solve = ivpsolve.solve_adaptive_save_at(solver=Solver(), error=Err(lambda t: 0.3 if t < 0.5 else 0.05), clip_dt=False)
        out = solve(None, save_at=jnp.asarray([0., 0.25, 0.5, 1.0]), atol=1e-3, rtol=1e-3, dt0=1.0)
    print('per run', (time.time()-t)/N, 'attempts', sum(1 for l in LOG if l[0]=='step'))
