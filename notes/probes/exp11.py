import jax, warnings
jax.config.update("jax_enable_x64", True)
import jax.numpy as jnp
from probdiffeq import ivpsolve, probdiffeq
def vf(u,*,t): return u*(1-u)
ode=probdiffeq.ode(vf, jacobian=probdiffeq.jacobian_materialize())
u0=jnp.asarray([0.3,0.5,0.7])
tc,_=probdiffeq.jetexpand_ode_unroll(num=2)(ode,[u0],t=0.)
grid=jnp.asarray([0.,0.1,0.2])
def attempt(name, f):
    try:
        with warnings.catch_warnings(record=True) as w:
            warnings.simplefilter("always")
            out=f()
        print('  ',name,'-> NO EXCEPTION', ('warn:'+str(w[0].message)[:60]) if w else '', type(out).__name__)
    except Exception as e:
        print('  ',name,'->',type(e).__name__, str(e)[:80].replace('\n',' '))
for ssmf in [probdiffeq.state_space_model_dense, probdiffeq.state_space_model_isotropic, probdiffeq.state_space_model_blockdiag]:
    ssm=ssmf(); print(ssmf.__name__)
    def solve_with(prior):
        c=ssm.constraint_ode_ts0(ode)
        s=ivpsolve.solve_fixed_grid(solver=probdiffeq.solver(strategy=probdiffeq.strategy_filter(),constraint=c))(prior,grid=grid)
        return s
    attempt('output_scale shape (2,)', lambda: solve_with(ssm.prior_wiener_integrated(tc, output_scale=jnp.ones((2,)))))
    attempt('output_scale shape (1,)', lambda: solve_with(ssm.prior_wiener_integrated(tc, output_scale=jnp.ones((1,)))))
    attempt('output_scale shape ()', lambda: solve_with(ssm.prior_wiener_integrated(tc, output_scale=jnp.ones(()))))
    attempt('output_scale shape (3,)', lambda: solve_with(ssm.prior_wiener_integrated(tc, output_scale=jnp.ones((3,)))))
    attempt('output_scale shape (3,1)', lambda: solve_with(ssm.prior_wiener_integrated(tc, output_scale=jnp.ones((3,1)))))
    attempt('output_scale list', lambda: solve_with(ssm.prior_wiener_integrated(tc, output_scale=[1.,1.,1.])))
    attempt('is_exact float', lambda: solve_with(ssm.prior_wiener_integrated(tc, is_exact=1.0)))
    attempt('is_exact int list', lambda: solve_with(ssm.prior_wiener_integrated(tc, is_exact=[1,0,1])))
    attempt('is_exact short list', lambda: solve_with(ssm.prior_wiener_integrated(tc, is_exact=[True,False])))
    attempt('is_exact wrong leaf shape', lambda: solve_with(ssm.prior_wiener_integrated(tc, is_exact=[jnp.ones((2,),dtype=bool)]*3)))
    attempt('tcoeffs as array', lambda: solve_with(ssm.prior_wiener_integrated(jnp.stack(tc))))
    attempt('tcoeffs ragged', lambda: solve_with(ssm.prior_wiener_integrated([tc[0], tc[1][:2], tc[2]])))
    attempt('plain function ts0', lambda: ssm.constraint_ode_ts0(vf))
    attempt('plain function ts1', lambda: ssm.constraint_ode_ts1(vf))
    attempt('plain function residual', lambda: ssm.constraint_residual(vf))
    attempt('transition output_scale (2,)', lambda: ssm.prior_wiener_integrated(tc).transition(dt=0.1, output_scale=jnp.ones((2,))))
    attempt('transition output_scale (3,)', lambda: ssm.prior_wiener_integrated(tc).transition(dt=0.1, output_scale=jnp.ones((3,))))
    attempt('transition output_scale ()', lambda: ssm.prior_wiener_integrated(tc).transition(dt=0.1, output_scale=jnp.ones(())))
    # losses
    prior=ssm.prior_wiener_integrated(tc)
    c=ssm.constraint_ode_ts0(ode)
    sol=ivpsolve.solve_fixed_grid(solver=probdiffeq.solver(strategy=probdiffeq.strategy_smoother_fixedinterval(),constraint=c))(prior,grid=grid)
    data=sol.u.mean[0]
    lt=probdiffeq.loss_lml_timeseries()
    for nm,std in [('std (3,)',jnp.ones((3,))),('std (3,3)',jnp.ones((3,3))),('std ()',jnp.ones(())),('std (3,1)',jnp.ones((3,1))),('std (2,3)',jnp.ones((2,3)))]:
        attempt('lml_timeseries '+nm, lambda: lt(data, posterior=sol.solution_full.posterior, std=std))
    attempt('lml_timeseries filter posterior', lambda: lt(data, posterior=sol.u, std=jnp.ones((3,3))))
    ltv=probdiffeq.loss_lml_terminal_values()
    last=jax.tree.map(lambda s:s[-1], sol.u)
    for nm,std in [('std (3,)',jnp.ones((3,))),('std ()',jnp.ones(())),('std (1,)',jnp.ones((1,))),('std (3,1)',jnp.ones((3,1)))]:
        attempt('lml_terminal '+nm, lambda: ltv(data[-1], marginals=last, std=std))
