import jax, time
jax.config.update("jax_enable_x64", True)
import jax.numpy as jnp
import numpy as onp
from probdiffeq import ivpsolve, probdiffeq

def make(ssmf, solverf, strat, ts1):
    def run(lam, u0v):
        def vf(u,*,t): return lam*u*(1-u)
        ode=probdiffeq.ode(vf, jacobian=probdiffeq.jacobian_materialize())
        u0=jnp.asarray([u0v, 0.5])
        tc,_=probdiffeq.jetexpand_ode_unroll(num=3)(ode,[u0],t=0.)
        ssm=ssmf(); prior=ssm.prior_wiener_integrated(tc)
        c=ssm.constraint_ode_ts1(ode) if ts1 else ssm.constraint_ode_ts0(ode)
        solver=solverf(strategy=strat(),constraint=c)
        err=probdiffeq.error_residual_std(constraint=c)
        sol=ivpsolve.solve_adaptive_save_at(solver=solver,error=err)(prior,save_at=jnp.asarray([0.,0.3,1.0]),atol=1e-6,rtol=1e-6,dt0=0.1)
        return sol.u.mean[0], sol.u.std[0], sol.num_steps, sol.output_scale
    return run
lams=jnp.asarray([0.5, 5.0, 30.0]); u0s=jnp.asarray([0.1,0.2,0.3])
for ssmf in [probdiffeq.state_space_model_dense, probdiffeq.state_space_model_isotropic, probdiffeq.state_space_model_blockdiag]:
  for solverf in [probdiffeq.solver, probdiffeq.solver_mle, probdiffeq.solver_dynamic]:
    for strat in [probdiffeq.strategy_filter, probdiffeq.strategy_smoother_fixedpoint]:
      for ts1 in [False, True]:
        run=make(ssmf,solverf,strat,ts1)
        t=time.time()
        b=jax.jit(jax.vmap(run))(lams,u0s)
        tb=time.time()-t
        t=time.time()
        jr=jax.jit(run)
        s=[jr(l,u) for l,u in zip(lams,u0s)]
        ts=time.time()-t
        worst=0; nanflag=False
        for i in range(3):
            for a,bb in zip(s[i],b):
                d=jnp.max(jnp.abs(jnp.asarray(a,dtype=float)-jnp.asarray(bb[i],dtype=float))/(1e-300+jnp.abs(jnp.asarray(a,dtype=float))))
                if not jnp.isfinite(d): nanflag=True
                else: worst=max(worst,float(d))
        print(ssmf.__name__[18:],solverf.__name__,strat.__name__[9:],'ts1' if ts1 else 'ts0','steps',[int(x[2][-1]) for x in s],'worst rel diff %.2e'%worst,'NAN' if nanflag else '', 'times %.1f %.1f'%(tb,ts))
