---- MODULE MC ----
EXTENDS AdaptiveLoop
MC_CP == <<16, 24, 25, 40>>
MC_AccF == {<<1,2>>, <<1,1>>, <<2,1>>}
MC_RejF == {<<1,2>>, <<1,4>>}
====
