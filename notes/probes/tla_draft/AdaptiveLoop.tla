---------------------------- MODULE AdaptiveLoop ----------------------------
(* Integer-lattice model of probdiffeq's adaptive stepping protocol.
   One time unit = eps. Checkpoints CP[1..N]; the loop is advanced checkpoint by
   checkpoint; each LoopCall optionally runs a rejection loop and then interpolates. *)
EXTENDS Integers, Sequences, FiniteSets
CONSTANTS CP,        \* sequence of checkpoint times (lattice units), strictly increasing
          Dt0,       \* initial step proposal
          Clip,      \* BOOLEAN
          Hadm,      \* admissible step (constant profile for the draft)
          AccF, RejF \* factor sets as pairs <<num, den>>
VARIABLES t, ti, dt, idx, pc, try, out, nacc

vars == <<t, ti, dt, idx, pc, try, out, nacc>>
N == Len(CP)
Eps == 1
Scale(x, f) == (x * f[1]) \div f[2]
Min(a,b) == IF a < b THEN a ELSE b

Init == /\ t = 0 /\ ti = 0 /\ dt = Dt0 /\ idx = 1 /\ pc = "call" /\ try = 0
        /\ out = <<>> /\ nacc = 0

T1 == CP[idx]

\* entry of loop.loop: enter the rejection loop iff step_from.t + eps < t1
Call == /\ pc = "call" /\ idx <= N
        /\ IF t + Eps < T1 THEN pc' = "attempt" ELSE pc' = "interp"
        /\ UNCHANGED <<t, ti, dt, idx, try, out, nacc>>

Attempt == /\ pc = "attempt"
           /\ LET d == IF Clip THEN Min(dt, T1 - t) ELSE dt IN
              IF d <= Hadm
              THEN \E f \in AccF :
                     /\ Scale(d, f) >= 1
                     /\ t' = t + d /\ ti' = t /\ dt' = Scale(d, f) /\ nacc' = nacc + 1
                     /\ pc' = "interp"
              ELSE \E f \in RejF :
                     /\ Scale(d, f) >= 1
                     /\ dt' = Scale(d, f) /\ pc' = "attempt"
                     /\ UNCHANGED <<t, ti, nacc>>
           /\ UNCHANGED <<idx, try, out>>

Interp == /\ pc = "interp"
          /\ IF t + Eps < T1
             THEN /\ pc' = "call" /\ UNCHANGED <<t, ti, dt, idx, out>>      \* skip; advance continues
             ELSE IF t > T1 + Eps
                  THEN /\ out' = Append(out, <<T1, nacc, ti, t>>) /\ ti' = T1 /\ idx' = idx + 1
                       /\ pc' = "call" /\ UNCHANGED <<t, dt>>
                  ELSE /\ out' = Append(out, <<t, nacc, ti, t>>) /\ ti' = t /\ idx' = idx + 1
                       /\ pc' = "call" /\ UNCHANGED <<t, dt>>
          /\ UNCHANGED <<try, nacc>>

Done == /\ pc = "call" /\ idx > N /\ UNCHANGED vars

Next == Call \/ Attempt \/ Interp \/ Done

Spec == Init /\ [][Next]_vars

\* ---- invariants (C06) ----
InOrderOnce == /\ Len(out) = idx - 1
               /\ \A i \in 1..Len(out) : out[i][1] >= CP[i] - Eps /\ out[i][1] <= CP[i] + Eps
Between == \A i \in 1..Len(out) : out[i][3] <= out[i][1] /\ out[i][1] <= out[i][4]
NoOvershootWhenClipped == Clip => (idx <= N => t <= CP[idx]) 
InterpFromBehind == ti <= t
Progress == dt >= 1
=============================================================================
