CONSTANTS
  CP <- MC_CP
  Dt0 = 32
  Clip = TRUE
  Hadm = 8
  AccF <- MC_AccF
  RejF <- MC_RejF
INIT Init
NEXT Next
INVARIANT InOrderOnce
INVARIANT Between
INVARIANT NoOvershootWhenClipped
INVARIANT InterpFromBehind
INVARIANT Progress
