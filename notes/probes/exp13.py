import jax
jax.config.update("jax_enable_x64", True)
import jax.numpy as jnp
from probdiffeq import ivpsolve, probdiffeq
from probdiffeq.backend import random as pr
def vf(u,*,t): return u*(1-u)
ode=probdiffeq.ode(vf, jacobian=probdiffeq.jacobian_materialize())
u0=jnp.asarray([0.3,0.5])
tc,_=probdiffeq.jetexpand_ode_unroll(num=2)(ode,[u0],t=0.)
pr.normal=lambda key, shape, dtype=None: jnp.zeros(shape)
for ssmf in [probdiffeq.state_space_model_dense, probdiffeq.state_space_model_isotropic, probdiffeq.state_space_model_blockdiag]:
    ssm=ssmf(); prior=ssm.prior_wiener_integrated(tc); c=ssm.constraint_ode_ts0(ode)
    solver=probdiffeq.solver(strategy=probdiffeq.strategy_smoother_fixedinterval(),constraint=c)
    sol=ivpsolve.solve_fixed_grid(solver=solver)(prior,grid=jnp.asarray([0.,0.3,0.6,1.0]))
    smp=sol.solution_full.posterior.sample(jax.random.PRNGKey(1))
    for k in range(3):
        print(ssmf.__name__[18:], 'coef',k,'means', sol.u.mean[k][:,0], 'zero-draw sample', smp[k][:,0])
