import jax
jax.config.update("jax_enable_x64", True)
import jax.numpy as jnp
import numpy as np
from math import factorial
from probdiffeq import ivpsolve, probdiffeq
q=3; d=2; n=(q+1)*d
def iwp(h):
    A=np.array([[h**(j-i)/factorial(j-i) if j>=i else 0. for j in range(q+1)] for i in range(q+1)])
    Q=np.array([[h**(2*q+1-i-j)/((2*q+1-i-j)*factorial(q-i)*factorial(q-j)) for j in range(q+1)] for i in range(q+1)])
    return np.kron(A,np.eye(d)), np.kron(Q,np.eye(d))
def f(u,t): return np.array([u[0]*(1-u[1]), 0.5*u[1]*u[0]-u[1]])
def vf(u,*,t): return jnp.stack([u[0]*(1-u[1]), 0.5*u[1]*u[0]-u[1]])
ode=probdiffeq.ode(vf, jacobian=probdiffeq.jacobian_materialize())
u0=jnp.asarray([0.5,0.25])
tc,_=probdiffeq.jetexpand_ode_unroll(num=q)(ode,[u0],t=0.)
H=np.zeros((d,n)); H[:,d:2*d]=np.eye(d)
for ssmf in [probdiffeq.state_space_model_dense, probdiffeq.state_space_model_isotropic, probdiffeq.state_space_model_blockdiag]:
  for scale in [1.0, 100.0]:
    ssm=ssmf()
    os = None if scale==1.0 else (jnp.asarray(scale) if ssmf is probdiffeq.state_space_model_isotropic else jnp.full((d,),scale))
    prior=ssm.prior_wiener_integrated(tc, output_scale=os); c=ssm.constraint_ode_ts0(ode)
    solver=probdiffeq.solver(strategy=probdiffeq.strategy_filter(),constraint=c)
    s0=solver.init(t=jnp.asarray(0.),u=prior,damp=0.)
    s1=solver.step(state=s0,dt=0.2,damp=0.)
    dt=0.15
    s2=solver.step(state=s1,dt=dt,damp=0.)
    for per_unit in [False, True]:
      for norm_name,norm in [('scale_then_rms',probdiffeq.error_norm_scale_then_rms()),('rms_then_scale',probdiffeq.error_norm_rms_then_scale())]:
        est=probdiffeq.error_residual_std(constraint=c,error_norm=norm,error_per_unit_step=per_unit)
        atol,rtol=1e-4,1e-2
        p,_=est.estimate_error_norm(est.init_error(),previous=s1,proposed=s2,dt=dt,atol=atol,rtol=rtol,damp=0.)
        # reference
        m1=np.asarray(s1.u.to_multivariate_normal()[0]); A,Q=iwp(dt); mp=A@m1
        z=mp[d:2*d]-f(mp[:d],0.35); S=H@Q@H.T
        if ssmf is probdiffeq.state_space_model_blockdiag:
            sig=np.sqrt(z**2/np.diag(S))      # per-dim
        else:
            sig=np.sqrt(z@np.linalg.solve(S,z)/d)
        err=sig*np.sqrt(np.diag(S)); nn=1+(1 if per_unit else 0)
        err=err*dt**nn/factorial(nn)
        ref=np.maximum(np.abs(m1[:d]), np.abs(np.asarray(s2.u.to_multivariate_normal()[0])[:d]))
        if norm_name=='scale_then_rms': nm=np.linalg.norm(err/(atol+rtol*ref))/np.sqrt(d)
        else: nm=(np.linalg.norm(err)/np.sqrt(d))/(atol+rtol*np.linalg.norm(ref)/np.sqrt(d))
        print(ssmf.__name__[18:],scale,per_unit,norm_name,'imp',float(p),'ref',nm**(-1/(q+1)))
