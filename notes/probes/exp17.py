import jax
jax.config.update("jax_enable_x64", True)
import jax.numpy as jnp
import numpy as np
from fractions import Fraction as F
from math import factorial
from probdiffeq import probdiffeq
# residual r(u,du,t) = du - (u^2 + t^2 u + t);   curve with derivatives c0..c4 at t0 (arbitrary)
def r(u,du,*,t): return du - (u*u + t*t*u + t)
res=probdiffeq.residual_velocity(r)
c=[0.5, 1.2, -0.7, 2.0, 0.3, -1.1]; t0=0.7
# exact: power series. u(t0+s)=sum c_k s^k/k!
def series_mul(a,b,K): return [sum(a[i]*b[k-i] for i in range(k+1)) for k in range(K+1)]
K=4
u=[F(str(ck))/factorial(k) for k,ck in enumerate(c[:K+1])]            # normalized
du=[F(str(c[k+1]))/factorial(k) for k in range(K+1)]
ts=[F(7,10),F(1)]+[F(0)]*(K-1)
rr=[a-b for a,b in zip(du,[x+y+z for x,y,z in zip(series_mul(u,u,K), series_mul(series_mul(ts,ts,K),u,K), ts)])]
exact=[float(x*factorial(k)) for k,x in enumerate(rr)]
for m in range(0,5):
    lifted=res.jet_lift(lift_by=m)
    jet=[jnp.asarray([ck]) for ck in c[:2+m]]
    out=lifted.residual_function(jet_coords=jet, t=t0)
    print(m,[float(o[0]) for o in out], exact[:m+1])
# inadmissible
for lb in [-1, 5]:
    try:
        res.jet_lift(lift_by=lb).residual_function(jet_coords=[jnp.asarray([ck]) for ck in c[:4]], t=t0); print(lb,'no error')
    except Exception as e: print(lb,type(e).__name__)
# ODE lift
ode=probdiffeq.ode(lambda u,*,t: u*u+t*t*u+t)
for m in range(0,4):
    l=ode.jet_lift(lift_by=m)
    out=l.vector_field(jet_coords=[jnp.asarray([ck]) for ck in c[:1+m]], t=t0)
    print('ode',m,l.tcoeff_indices_output,[float(o[0]) for o in out])
