"""Traceable scripted error estimator and controller: a step history is *data*.

History = accepted step sizes S[0..K-1] and rejection counts r[0..K-1] (how many halvings precede the
acceptance of step k). The estimator accepts attempt dt for the k-th step iff dt <= S[k] (k = number
of accepted steps so far, kept in the error state, which the loop only advances on acceptance); the
controller halves on rejection and proposes S[k+1] * 2^r[k+1] after the acceptance of step k. After the
script ends both hold the last step size (progress guarantee).  With dyadic S all arithmetic is exact.
"""
import jax.numpy as jnp


class ScriptErr:
    def __init__(self, S):
        self.S = S

    def init_error(self):
        return jnp.asarray(0)

    def estimate_error_norm(self, state, previous, proposed, *, dt, atol, rtol, damp):
        k = jnp.minimum(state, self.S.shape[0] - 1)
        ok = dt <= self.S[k] * (1 + 1e-12)
        power = jnp.where(ok, 2.0, 0.5)
        return power, jnp.where(ok, state + 1, state)


class ScriptCtl:
    def __init__(self, S, r):
        self.S, self.r = S, r

    def init(self, dt):
        return jnp.asarray(0)

    def apply(self, dt, k, *, error_power):
        acc = error_power >= 1.0
        k_new = jnp.where(acc, k + 1, k)
        kk = jnp.minimum(k_new, self.S.shape[0] - 1)
        nxt = self.S[kk] * 2.0 ** self.r[kk]
        return jnp.where(acc, nxt, dt / 2), k_new


def first_dt(S, r):
    return float(S[0]) * 2.0 ** int(r[0])


def step_ends(S, t0, t_end, eps):
    """Step ends produced by the script until the final time is reached (the loop stops once
    step_end + eps >= t_end); after the script ends the last size repeats."""
    out = [t0]
    k = 0
    while out[-1] + eps < t_end:
        out.append(out[-1] + S[min(k, len(S) - 1)])
        k += 1
    return out
