"""Shared comparison helpers for the state-space-model properties (C03, C04, C05, C12, C13, C14)."""

import numpy as np

from mc import alphabets, compare, core, impl
from mc.refmodel import gauss

SCALE_VEC = [3.0, 0.5, 2.0]


def ref_structure(ssm, lin, scaled, d):
    if ssm == "blockdiag":
        return "blockdiag"
    if lin == "ts0" and (not scaled or d == 1):
        return "dense"
    return ssm


def scale_vec(ssm, scaled, d):
    if not scaled:
        return [1.0] * d
    if ssm == "isotropic":
        return [SCALE_VEC[0]] * d
    return SCALE_VEC[:d]


def mean0(C, d, m, q, init_id, ndiff=0):
    from fractions import Fraction

    from mc.refmodel import series

    inits = alphabets.INITS[(d, m)][init_id]
    terms = series.terms_from_tensor(C)
    K = q + 1 - ndiff - m
    ders = series.ode_taylor(terms, d, m, [[Fraction(v) for v in row] for row in inits], Fraction(0), max(K, 0))
    ders = ders[: q + 1 - ndiff]
    return np.array([[float(v) for v in row] for row in ders])


def union_grid(step_ends, save_at, eps):
    """Sorted union of step ends and checkpoints; a checkpoint within eps of a step end *is* that step end.
    Returns (grid, observe mask, index of each checkpoint in grid)."""
    pts = [(float(t), True) for t in step_ends]
    idx_of = []
    for s in save_at:
        near = [i for i, (t, ob) in enumerate(pts) if ob and abs(t - s) <= eps]
        if near:
            continue
        if not any(abs(t - s) == 0 for t, _ in pts):
            pts.append((float(s), False))
    pts.sort()
    grid = [t for t, _ in pts]
    obs = [ob for _, ob in pts]
    for s in save_at:
        near = [i for i, (t, ob) in enumerate(pts) if ob and abs(t - s) <= eps]
        if near:
            idx_of.append(near[0])
        else:
            idx_of.append(next(i for i, (t, _) in enumerate(pts) if t == s))
    return grid, obs, idx_of


def local_steps(grid):
    """Step size used for the scaled comparison at each grid point (the step that ends there)."""
    hs = np.diff(grid)
    return [hs[max(k - 1, 0)] for k in range(len(grid))]


def compare_marginals(fails, tag, means, covs, refs, ref_res, q, d, hs, amps, slack, wk, kind_prefix=""):
    """refs: list of (mean, cov) reference marginals (unit-scale; calibrated here)."""
    for k, (mref, Pref) in enumerate(refs):
        Pref = gauss.calibrated(ref_res, Pref)
        dm, dc = compare.state_dev(means[k], covs[k], mref, Pref, q, d, hs[k])
        allowed = (compare.TAU + slack[k]) * amps[k]
        wk[kind_prefix + "mean"] = max(wk.get(kind_prefix + "mean", 0.0), dm / allowed)
        wk[kind_prefix + "cov"] = max(wk.get(kind_prefix + "cov", 0.0), dc / allowed)
        if not (dm <= allowed):
            fails.append(core.fail(kind_prefix + "mean", f"{tag} point {k}: scaled deviation {dm:.3e} (allowed {allowed:.1e})"))
        if not (dc <= allowed):
            fails.append(core.fail(kind_prefix + "cov", f"{tag} point {k}: scaled deviation {dc:.3e} (allowed {allowed:.1e})"))


def scale_slack(ref):
    out = []
    run = 0.0
    for sc, fl in zip(ref.scales, ref.scale_floors):
        sc = np.array([float(v) for v in np.atleast_1d(sc)])
        fl = np.array([float(v) for v in np.atleast_1d(fl)])
        ratio = float(np.max(fl / np.maximum(sc, 1e-300))) if np.any(fl > 0) else 0.0
        run = max(run, 4.0 * compare.TAU * compare.FLOOR_REL * ratio)
        out.append(run)
    if ref.calib == "mle":
        out = [out[-1]] * len(out)
    else:
        # smoothing propagates information (and the rounding it carries) backwards too
        out = [out[-1]] * len(out)
    return out


def compare_scales(fails, tag, osc, ref, idxs, amps, wk):
    """osc: array of returned output scales (one per entry of idxs = indices into ref.ts)."""
    for k, gi in enumerate(idxs):
        want = np.array([float(v) for v in np.atleast_1d(ref.scales[gi])])
        floor = np.array([float(v) for v in np.atleast_1d(ref.scale_floors[gi])])
        got = np.atleast_1d(osc[k])
        if want.shape != got.shape and want.size == 1:
            want = np.full(got.shape, want[0])
        if got.shape != want.shape:
            fails.append(core.fail("output_scale_shape", f"{tag}: {got.shape} vs {want.shape}"))
            return
        if floor.shape != want.shape:
            floor = np.full(want.shape, floor.reshape(-1)[0])
        if not np.all(np.isfinite(got)):
            dev = float("inf")
        else:
            dev = float(np.max(np.abs(got - want) / (np.abs(want) + compare.FLOOR_REL * floor + 1e-300))) / amps[k]
        wk["scale"] = max(wk.get("scale", 0.0), dev / compare.TAU)
        if not (dev <= compare.TAU):
            fails.append(core.fail("output_scale", f"{tag} entry {k}: got {got} want {want}"))


def markov_to_dense(post, ssm):
    """Dense terminal marginal and backward kernels of a reverse MarkovSequence returned by the library.
    Returns (mT, PT, [ (A_i, b_i, Q_i) ]) with x_i | x_{i+1} ~ N(A_i x_{i+1} + b_i, Q_i), i = 0..K-1."""
    import jax

    mT, PT = post.marginal.to_multivariate_normal()
    mT, PT = np.asarray(mT), np.asarray(PT)
    K = np.asarray(post.conditional.A).shape[0]
    kernels = []
    for i in range(K):
        ci = jax.tree.map(lambda s: s[i], post.conditional)
        kernels.append(impl.cond_to_dense(ci, ssm))
    return mT, PT, kernels


def joint_from_markov(mT, PT, kernels):
    """Marginals and adjacent cross-covariances implied by the backward factorisation (float64)."""
    K = len(kernels)
    means = [None] * (K + 1)
    covs = [None] * (K + 1)
    cross = [None] * K
    means[K], covs[K] = mT, PT
    for i in range(K - 1, -1, -1):
        A, b, Q = kernels[i]
        means[i] = A @ means[i + 1] + b
        covs[i] = A @ covs[i + 1] @ A.T + Q
        cross[i] = A @ covs[i + 1]
    prod = np.eye(len(mT))
    for i in range(K):
        prod = prod @ kernels[i][0]
    end_cross = prod @ PT
    return means, covs, cross, end_cross


def compare_cross(fails, tag, C_imp, C_ref, P_i, P_j, q, d, h_i, h_j, allowed, wk, kind="crosscov"):
    Wi = np.array([float(w) for w in gauss.taylor_scaling(q, d, h_i)])
    Wj = np.array([float(w) for w in gauss.taylor_scaling(q, d, h_j)])
    Cr = gauss.tofloat(C_ref)
    dC = (C_imp - Cr) * Wi[:, None] * Wj[None, :]
    sdi = np.sqrt(np.clip(np.diag(gauss.tofloat(P_i)), 0, None)) * Wi
    sdj = np.sqrt(np.clip(np.diag(gauss.tofloat(P_j)), 0, None)) * Wj
    scale = sdi[:, None] * sdj[None, :] + 1e-4 * max(np.max(sdi) * np.max(sdj), 1e-300)
    dev = float(np.max(np.abs(dC) / scale)) if np.all(np.isfinite(C_imp)) else float("inf")
    wk[kind] = max(wk.get(kind, 0.0), dev / allowed)
    if not (dev <= allowed):
        fails.append(core.fail(kind, f"{tag}: scaled deviation {dev:.3e} (allowed {allowed:.1e})"))


def dedup(fails):
    seen = {}
    for f in fails:
        seen.setdefault(f["kind"], f)
    return list(seen.values())
