"""Runner: ./check <ID> [quick|thorough] | ./check <ID> --replay <path>.

A property module (mc/props/<ID>.py) provides

  LEVEL, TECHNIQUE            strings
  enumerate_cases(tier, seed) -> list of JSON-able dicts with keys "id" (stable, unique) and
                                 "group" (cases of one group share compiled programs and are
                                 executed by the same worker); every other key is an attribute
                                 of the case (used by known-finding selectors and for replay)
  run_cases(cases)            -> generator of result dicts
                                 {"id", "failures": [{"kind", "detail"}], "transitions", "traces",
                                  "outcome", "dev", ["states"]}
  describe(tier, seed)        -> dict for the evidence file (alphabets, bounds, rule, assumptions)

The runner enumerates *all* cases (nothing is sampled), distributes whole groups over worker
processes, merges the results, attributes failures to known findings, confirms every new failure by
re-execution in a fresh process, writes replay files, the evidence file and the VIOLATION lines.

Exit codes: 0 property held on everything explored (known findings are announced, not alarms),
            1 at least one violation that known_findings.json does not list,
            2 harness error (never reported as a violation).
"""

import importlib
import json
import os
import subprocess
import sys
import tempfile
import time

ROOT = os.path.dirname(os.path.dirname(os.path.abspath(__file__)))
PY = sys.executable


def load_known(pid):
    path = os.path.join(ROOT, "known_findings.json")
    if not os.path.exists(path):
        return [], []
    data = json.load(open(path))
    return [f for f in data.get("findings", []) if f["property"] == pid], data.get("fixed", [])


def _match_value(want, have):
    if isinstance(want, list):
        return have in want
    return want == have


def attribute(case, failure, findings):
    """Return the known finding that explains this failure of this case, or None."""
    for f in findings:
        sel = f.get("selector", {})
        if not all(_match_value(v, case.get(k)) for k, v in sel.items()):
            continue
        kinds = f.get("failure_kinds")
        if kinds is not None and not any((k.endswith("*") and failure["kind"].startswith(k[:-1])) or failure["kind"] == k for k in kinds):
            continue
        ids = f.get("case_ids")
        if ids is not None and case["id"] not in ids:
            continue
        return f
    return None


def run_workers(pid, cases, workers, timeout_s, tag):
    """Distribute whole groups over worker processes; return {case id: result}."""
    groups = {}
    for c in cases:
        groups.setdefault(c["group"], []).append(c)
    # longest-processing-time-first assignment by (weighted) group size
    order = sorted(groups, key=lambda g: -sum(c.get("weight", 1) for c in groups[g]))
    workers = max(1, min(workers, len(order)))
    shards = [[] for _ in range(workers)]
    load = [0.0] * workers
    for g in order:
        i = load.index(min(load))
        shards[i].extend(groups[g])
        load[i] += sum(c.get("weight", 1) for c in groups[g])
    tmp = tempfile.mkdtemp(prefix=f"verif_{pid}_{tag}_")
    procs = []
    env = dict(os.environ)
    env["PYTHONPATH"] = ROOT + os.pathsep + os.path.join(ROOT, ".vendor") + os.pathsep + env.get("PYTHONPATH", "")
    for i, shard in enumerate(shards):
        if not shard:
            continue
        fin = os.path.join(tmp, f"in{i}.json")
        fout = os.path.join(tmp, f"out{i}.jsonl")
        ferr = os.path.join(tmp, f"err{i}.log")
        json.dump(shard, open(fin, "w"))
        p = subprocess.Popen(
            [PY, "-m", "mc.worker", pid, fin, fout],
            cwd=ROOT, env=env, stdout=open(ferr, "w"), stderr=subprocess.STDOUT,
        )
        procs.append((p, shard, fout, ferr))
    results = {}
    harness_errors = []
    deadline = time.time() + timeout_s
    # A worker that produces no new result for `stall_s` is hung inside one case (e.g. a livelock in the code under test): that
    # case is reported as a failure. Running out of the *global* budget while workers still make progress is a harness error
    # (exit 2), never a violation.
    stall_s = max(600.0, timeout_s / 3.0)
    last_size = {id(p): (-1, time.time()) for p, *_ in procs}
    stalled, over_budget = set(), False
    while any(p.poll() is None for p, *_ in procs):
        time.sleep(1.0)
        now = time.time()
        for p, shard, fout, ferr in procs:
            if p.poll() is not None:
                continue
            size = os.path.getsize(fout) if os.path.exists(fout) else 0
            if size != last_size[id(p)][0]:
                last_size[id(p)] = (size, now)
            elif now - last_size[id(p)][1] > stall_s:
                stalled.add(id(p))
                p.kill()
        if now > deadline:
            over_budget = True
            for p, *_ in procs:
                if p.poll() is None:
                    p.kill()
            break
    for p, shard, fout, ferr in procs:
        p.wait()
    if over_budget:
        harness_errors.append(f"time budget of {timeout_s}s exceeded while workers were still making progress (machine too slow or too loaded); not a verdict")
    for p, shard, fout, ferr in procs:
        done = set()
        if os.path.exists(fout):
            for line in open(fout):
                line = line.strip()
                if not line:
                    continue
                try:
                    r = json.loads(line)
                except json.JSONDecodeError:
                    continue
                if r.get("harness_error"):
                    harness_errors.append(r["harness_error"])
                    continue
                results[r["id"]] = r
                done.add(r["id"])
        if p.returncode not in (0,):
            missing = [c for c in shard if c["id"] not in done]
            tail = ""
            try:
                tail = "".join(open(ferr).readlines()[-15:])
            except OSError:
                pass
            if p.returncode == 3:
                harness_errors.append(f"worker harness error:\n{tail}")
            elif missing and over_budget and id(p) not in stalled:
                pass
            elif missing:
                # killed on timeout or crashed: the first unfinished case is the culprit candidate
                c = missing[0]
                results[c["id"]] = {
                    "id": c["id"],
                    "failures": [{"kind": "no_result", "detail": f"worker rc={p.returncode} ({'no progress for %ds: hung' % stall_s if id(p) in stalled else 'crash'}) while running this case; log tail: {tail[-600:]}"}],
                    "transitions": 0, "traces": 0, "outcome": "no_result", "dev": 0.0,
                }
                for c in missing[1:]:
                    results[c["id"]] = {"id": c["id"], "failures": [], "skipped": True,
                                        "transitions": 0, "traces": 0, "outcome": "skipped", "dev": 0.0}
    try:
        import shutil
        shutil.rmtree(tmp, ignore_errors=True)
    except Exception:
        pass
    return results, harness_errors


def write_replay(pid, case, result):
    d = os.path.join(ROOT, "replays", pid)
    os.makedirs(d, exist_ok=True)
    safe = "".join(ch if ch.isalnum() or ch in "-_." else "_" for ch in case["id"])[:150]
    path = os.path.join(d, safe + ".json")
    json.dump({"property": pid, "case": case, "failures": result["failures"],
               "how_to_replay": f"./check {pid} --replay {path}"}, open(path, "w"), indent=1, default=str)
    test = os.path.join(d, "test_" + safe.replace(".", "_").replace("-", "_") + ".py")
    with open(test, "w") as fh:
        fh.write(
            "# Generated: replays one violating case without the explorer.\n"
            "import json, subprocess, sys\n"
            f"def test_replay():\n"
            f"    rc = subprocess.call(['/verif/check', '{pid}', '--replay', '{path}'])\n"
            f"    assert rc == 0, 'property {pid} violated on the recorded case'\n"
        )
    return path


def replay(pid, path):
    from mc import worker

    data = json.load(open(path))
    case = data["case"]
    res = worker.run_inproc(pid, [case])
    r = res[0]
    print(json.dumps(r, indent=1, default=str))
    if r["failures"]:
        print(f"VIOLATION property={pid} replay={path}")
        return 1
    print("replayed case passes")
    return 0


def main(argv):
    if len(argv) < 1:
        print(__doc__)
        return 2
    pid = argv[0]
    rest = argv[1:]
    if "--replay" in rest:
        return replay(pid, rest[rest.index("--replay") + 1])
    tier = os.environ.get("VERIF_TIER", "quick")
    for a in rest:
        if a in ("quick", "thorough"):
            tier = a
    seed = int(os.environ.get("VERIF_SEED", "0") or 0)
    workers = int(os.environ.get("VERIF_WORKERS", "0") or 0) or (os.cpu_count() or 4)
    if "--workers" in rest:
        workers = int(rest[rest.index("--workers") + 1])
    t0 = time.time()
    import shutil
    shutil.rmtree(os.path.join(ROOT, "replays", pid), ignore_errors=True)  # replays of earlier runs are stale
    mod = importlib.import_module(f"mc.props.{pid}")
    cases = mod.enumerate_cases(tier, seed)
    ids = [c["id"] for c in cases]
    if len(set(ids)) != len(ids):
        print("HARNESS-ERROR duplicate case ids")
        return 2
    timeout_s = getattr(mod, "TIMEOUT_S", {"quick": 900, "thorough": 7200})[tier]
    # budgets are sized for >= 4 cores; fewer workers get proportionally more time, VERIF_TIMEOUT_SCALE scales it for slow machines
    timeout_s *= max(1.0, 4.0 / max(1, workers)) * float(os.environ.get("VERIF_TIMEOUT_SCALE", "1") or 1)
    results, herr = run_workers(pid, cases, workers, timeout_s, "main")
    if herr:
        print("HARNESS-ERROR", herr[0][:3000])
        return 2
    missing = [c["id"] for c in cases if c["id"] not in results]
    if missing:
        print(f"HARNESS-ERROR {len(missing)} cases without a result, e.g. {missing[:3]}")
        return 2

    findings, fixed = load_known(pid)
    by_id = {c["id"]: c for c in cases}
    failing = [r for r in results.values() if r["failures"]]
    known_hits = {}
    new_fail = []
    for r in failing:
        case = by_id[r["id"]]
        unexplained = []
        for f in r["failures"]:
            k = attribute(case, f, findings)
            if k is None:
                unexplained.append(f)
            else:
                known_hits.setdefault(k["id"], []).append((r["id"], f))
        if unexplained:
            new_fail.append((case, r, unexplained))

    # confirm new failures by re-execution in a fresh process (same case must fail the same way)
    violations = []
    flaky = []
    if new_fail:
        again, herr2 = run_workers(pid, [c for c, _, _ in new_fail][:200], workers, timeout_s, "confirm")
        for case, r, unexplained in new_fail:
            r2 = again.get(case["id"])
            if r2 is None:
                violations.append((case, r, unexplained))  # beyond the confirmation cap: report as is
                continue
            kinds1 = sorted(f["kind"] for f in r["failures"])
            kinds2 = sorted(f["kind"] for f in r2["failures"])
            if kinds1 == kinds2:
                violations.append((case, r, unexplained))
            else:
                flaky.append((case["id"], kinds1, kinds2))
    if flaky:
        print(f"HARNESS-ERROR non-reproducible failure(s): {flaky[:3]}")
        return 2

    for fid, hits in sorted(known_hits.items()):
        f = next(x for x in findings if x["id"] == fid)
        print(f"KNOWN-FINDING: property={pid} {fid}: {f['what']} ({len(hits)} case(s), e.g. {hits[0][0]})")
    # a listed finding that no longer fails is worth a note (not an error)
    for f in findings:
        if f["id"] not in known_hits and f.get("tiers", [tier]).count(tier):
            print(f"NOTE: known finding {f['id']} of {pid} did not reproduce in this run")

    replay_paths = []
    for case, r, unexplained in violations[:50]:
        rr = dict(r)
        rr["failures"] = unexplained
        replay_paths.append(write_replay(pid, case, rr))
    for pth in replay_paths:
        print(f"VIOLATION property={pid} replay={pth}")
    if len(violations) > len(replay_paths):
        print(f"... and {len(violations) - len(replay_paths)} more violating cases (replays written for the first {len(replay_paths)})")
    if violations:
        case, r, un = violations[0]
        print("first violation:", json.dumps({"case": case, "failures": un}, default=str)[:1500])

    # ---------------- evidence ----------------
    desc = mod.describe(tier, seed)
    n_states = sum(r.get("states", 1) for r in results.values() if not r.get("skipped"))
    n_trans = sum(r.get("transitions", 0) for r in results.values())
    n_traces = sum(r.get("traces", 0) for r in results.values())
    outcomes = {}
    for r in results.values():
        outcomes[r.get("outcome", "")] = outcomes.get(r.get("outcome", ""), 0) + 1
    worst = max([r.get("dev", 0.0) or 0.0 for r in results.values()] + [0.0])
    nontrivial = sum(1 for r in results.values() if r.get("nontrivial", True) and not r.get("skipped"))
    samples = []
    step = max(1, len(cases) // 5)
    for c in cases[::step][:6]:
        s = {k: v for k, v in c.items() if k not in ("weight",)}
        rr = results[c["id"]]
        s["_outcome"] = rr.get("outcome")
        if rr.get("sample") is not None:
            s["_trace"] = rr["sample"]
        samples.append(s)
    coverage = {
        "states": int(n_states),
        "transitions": int(n_trans),
        "traces_validated_against_impl": int(n_traces),
        "evaluations": len(cases),
        "distinct_nontrivial": int(nontrivial),
        "rule": desc.get("rule", ""),
        "samples": samples,
        "exhaustive": bool(desc.get("exhaustive", True)) and not any(r.get("skipped") for r in results.values()),
        "distinct_outcomes": len(outcomes),
        "outcome_histogram": dict(sorted(outcomes.items(), key=lambda kv: -kv[1])[:25]),
        "worst_numerical_deviation": worst,
        "worst_deviation_cases": [[r["id"], r.get("dev", 0.0)] for r in sorted(results.values(), key=lambda r: -(r.get("dev", 0.0) or 0.0))[:3]],
        "alphabets": desc.get("alphabets", {}),
        "bounds": desc.get("bounds", {}),
        "caps_hit": desc.get("caps_hit", []),
        "known_findings_reproduced": {k: len(v) for k, v in known_hits.items()},
        "tree_under_test": os.environ.get("VERIF_REPO", "/repo"),
        "workers": workers,
    }
    for k, v in desc.get("extra", {}).items():
        coverage[k] = v
    extra_cov = getattr(mod, "merge_coverage", None)
    if extra_cov is not None:
        coverage.update(extra_cov(list(results.values())))
    evidence = {
        "property_id": pid,
        "tier": tier,
        "seed": seed,
        "level": mod.LEVEL,
        "coverage": coverage,
        "assumptions": desc.get("assumptions", []),
        "wall_s": round(time.time() - t0, 2),
        "violations": len(violations),
    }
    os.makedirs(os.path.join(ROOT, "evidence"), exist_ok=True)
    json.dump(evidence, open(os.path.join(ROOT, "evidence", f"{pid}.json"), "w"), indent=1, default=str)
    print(f"{pid} {tier}: cases={len(cases)} states={n_states} transitions={n_trans} traces_validated={n_traces} "
          f"distinct_outcomes={len(outcomes)} worst_dev={worst:.3g} known={sum(len(v) for v in known_hits.values())} "
          f"violations={len(violations)} wall={time.time() - t0:.1f}s")
    return 1 if violations else 0


if __name__ == "__main__":
    sys.exit(main(sys.argv[1:]))
