"""Process-level setup shared by all workers: which tree is under test, float64, one XLA thread."""
import os
import sys


def repo_path():
    return os.path.realpath(os.environ.get("VERIF_REPO", "/repo"))


def setup(x64=True):
    """Import jax + probdiffeq from the tree under test. Idempotent."""
    os.environ.setdefault("JAX_PLATFORMS", "cpu")
    flags = os.environ.get("XLA_FLAGS", "")
    if "intra_op_parallelism_threads" not in flags:
        os.environ["XLA_FLAGS"] = (
            flags + " --xla_cpu_multi_thread_eigen=false intra_op_parallelism_threads=1"
        ).strip()
    os.environ.setdefault("OMP_NUM_THREADS", "1")
    os.environ.setdefault("OPENBLAS_NUM_THREADS", "1")
    # hooks guard (no source hooks exist; kept so that the interface is uniform)
    os.environ.setdefault("PROBDIFFEQ_VERIF", "1")
    repo = repo_path()
    if repo not in sys.path:
        sys.path.insert(0, repo)
    import jax

    jax.config.update("jax_enable_x64", bool(x64))
    import probdiffeq

    where = os.path.realpath(probdiffeq.__file__)
    if not where.startswith(repo + os.sep):
        raise RuntimeError(f"probdiffeq imported from {where}, expected under {repo}")
    return jax
