"""E1: exploration of the adaptive-stepping protocol on the real implementation.

The real `solve_adaptive_save_at`, `solve_adaptive_terminal_values`, `RejectionLoop.loop` and
`test_util.solve_adaptive_save_every_step` are closed with a scripted solver / error estimator /
controller (the loop accepts any object with these duck types) and executed under
`jax.disable_jit()`, so that `lax.while_loop / cond / switch / scan` run as Python control flow and
the scripted objects see concrete values. Every call is recorded; the trace is checked against the
clause-by-clause invariants of C06 and (where arithmetic is exact) against the plain-Python
reference protocol in mc/refmodel/protocol.py.
"""

import collections

S = collections.namedtuple("S", ["t", "n", "uid"])


class Recorder:
    def __init__(self):
        self.events = []  # ordered list of dicts
        self.states = {}  # uid -> dict(t, n, kind, base, parent)
        self.counter = 0

    def new_uid(self):
        self.counter += 1
        return self.counter


def make_components(jnp, rec, answer_fn, control, InterpResult, horizon):
    """Build (solver, error, control_proxy) that record into `rec`.

    answer_fn(k, t_prev, dt) -> float : the environment's k-th error answer.
    control : a real probdiffeq controller or a scripted one (any object with init/apply).
    """

    class Livelock(Exception):
        pass

    class Solver:
        is_suitable_for_save_at = True
        is_suitable_for_save_every_step = True

        def init(self, t, u, *, damp):
            rec.states[0] = dict(t=float(t), n=0, kind="init", base=0, parent=None)
            rec.events.append(dict(ev="init", t=float(t)))
            return S(jnp.asarray(t, dtype=float), jnp.asarray(0), jnp.asarray(0))

        def step(self, state, *, dt, damp):
            uid = rec.new_uid()
            t_new = state.t + dt
            src = int(state.uid)
            rec.states[uid] = dict(t=float(t_new), n=int(state.n) + 1, kind="proposed", base=uid, parent=src)
            rec.events.append(dict(ev="step", src=src, t=float(state.t), dt=float(dt), uid=uid, t_new=float(t_new)))
            if sum(1 for e in rec.events if e["ev"] == "step") > horizon:
                raise Livelock("horizon exceeded")
            return S(t_new, state.n + 1, jnp.asarray(uid))

        def interpolate_fwd(self, *, t, interp_from, interp_to):
            u_sol, u_from, u_to = rec.new_uid(), rec.new_uid(), rec.new_uid()
            f, o = int(interp_from.uid), int(interp_to.uid)
            base_to = rec.states[o]["base"]
            rec.states[u_sol] = dict(t=float(t), n=int(interp_to.n), kind="interp_solution", base=None, parent=o)
            rec.states[u_from] = dict(t=float(t), n=int(interp_from.n), kind="interp_point", base=None, parent=f)
            rec.states[u_to] = dict(t=float(interp_to.t), n=int(interp_to.n), kind="step_from_after_interp", base=base_to, parent=o)
            rec.events.append(dict(ev="interp", t=float(t), frm=f, to=o, t_from=float(interp_from.t), t_to=float(interp_to.t),
                                   sol=u_sol, new_from=u_from, new_to=u_to))
            sol = S(jnp.asarray(t, dtype=float), interp_to.n, jnp.asarray(u_sol))
            new_from = S(jnp.asarray(t, dtype=float), interp_from.n, jnp.asarray(u_from))
            new_to = S(interp_to.t, interp_to.n, jnp.asarray(u_to))
            return sol, InterpResult(step_from=new_to, interp_from=new_from)

        def interpolate_fwd_at_t1(self, *, t, interp_from, interp_to):
            f, o = int(interp_from.uid), int(interp_to.uid)
            rec.events.append(dict(ev="at_t1", t=float(t), frm=f, to=o, t_from=float(interp_from.t), t_to=float(interp_to.t)))
            if sum(1 for e in rec.events if e["ev"] == "at_t1") > horizon:
                raise Livelock("the loop keeps reporting the same checkpoint without advancing")
            return interp_to, InterpResult(step_from=interp_to, interp_from=interp_to)

        def userfriendly_output(self, *, solution0, solution, solution1):
            # like the real solvers: prepend the initial state, drop solution1
            rec.events.append(dict(ev="output", final_step_from=int(solution1.uid)))
            return S(*[jnp.concatenate([jnp.asarray(a)[None], jnp.asarray(b)]) for a, b in zip(solution0, solution)])

    class Err:
        def __init__(self):
            self.k = 0

        def init_error(self):
            return ()

        def estimate_error_norm(self, state, previous, proposed, *, dt, atol, rtol, damp):
            a = float(answer_fn(self.k, float(previous.t), float(dt)))
            rec.events.append(dict(ev="err", k=self.k, prev=int(previous.uid), prop=int(proposed.uid),
                                   t=float(previous.t), dt=float(dt), answer=a))
            self.k += 1
            return jnp.asarray(a), ()

    class ControlProxy:
        def init(self, dt):
            rec.events.append(dict(ev="ctrl_init", dt=float(dt)))
            return control.init(dt)

        def apply(self, dt, state, *, error_power):
            out, new_state = control.apply(dt, state, error_power=error_power)
            rec.events.append(dict(ev="propose", dt_in=float(dt), power=float(error_power), dt_out=float(out),
                                   cstate_in=_tofloat(state), cstate_out=_tofloat(new_state)))
            return out, new_state

    return Solver(), Err(), ControlProxy(), Livelock


def _tofloat(x):
    if isinstance(x, tuple) and len(x) == 0:
        return None
    try:
        return float(x)
    except Exception:  # noqa: BLE001
        return str(x)


class ScriptedControl:
    """Controller whose factors are dictated by a script (state = call counter, a JAX scalar)."""

    def __init__(self, jnp, factors, default_accept=1.0, default_reject=0.5):
        self.jnp, self.factors, self.da, self.dr = jnp, list(factors), default_accept, default_reject

    def init(self, dt):
        return self.jnp.asarray(0)

    def apply(self, dt, k, *, error_power):
        # an admissible controller shrinks after a rejection (C06 takes that as the controller's contract): the scripted factors are
        # used for proposals after accepted attempts only; after a rejection the factor is default_reject < 1
        kk = int(k)
        if float(error_power) < 1.0:
            fac = self.dr
        elif kk < len(self.factors):
            fac = self.factors[kk]
        else:
            fac = self.da
        return fac * dt, k + 1


class LatticeControl:
    """Controller with a finite dt lattice: halves on rejection, doubles on a clear acceptance
    (power >= 2), holds otherwise; proposals stay in [lo, hi]."""

    def __init__(self, jnp, lo=1 / 32, hi=1 / 2):
        self.jnp, self.lo, self.hi = jnp, lo, hi

    def init(self, dt):
        return ()

    def apply(self, dt, state, *, error_power):
        p = float(error_power)
        fac = 0.5 if p < 1.0 else (2.0 if p >= 2.0 else 1.0)
        return self.jnp.minimum(self.jnp.maximum(fac * dt, self.lo), self.hi), ()


def reference_events(rec_events):
    """Project the implementation's recorded events onto the reference protocol's event alphabet."""
    out = []
    pending_step = None
    for e in rec_events:
        if e["ev"] == "step":
            pending_step = e
        elif e["ev"] == "err":
            out.append(("attempt", e["t"], e["dt"], e["answer"]))
        elif e["ev"] == "propose":
            out.append(("propose", e["dt_in"], e["power"], e["dt_out"]))
        elif e["ev"] == "interp":
            out.append(("interp", e["t"], e["t_from"], e["t_to"]))
        elif e["ev"] == "at_t1":
            out.append(("at_t1", e["t_to"], e["t_from"], e["t_to"]))
    return out


def check_trace(rec, save_at, eps, clip, fmin, fmax, reported_t, reported_n, entry, safety_le_one=True, ulp_slack=0.0):
    """Clause-by-clause invariants of C06 on one recorded run. Returns a list of (kind, detail)."""
    bad = []
    ev = rec.events
    accepted = {0}  # uids (bases) that time may advance through
    latest_accepted = 0
    last_interp_t = None  # time of the last interpolation point inside the current step interval
    prev_accepted = 0
    n_accepted = 0
    t_final = save_at[-1]
    pending_reject = None  # (src uid, dt) of the rejected attempt that must be retried
    last_step = None
    last_propose = None
    checkpoint = 1  # index of the next checkpoint that must be reported (save_at runs only)
    for i, e in enumerate(ev):
        if e["ev"] == "step":
            st = rec.states.get(e["src"])
            base = st["base"] if st else None
            # I1: time advances only from the latest accepted state
            if base is None or base not in accepted:
                bad.append(("I1_step_from_unaccepted_state", f"event {i}: step from uid {e['src']} kind={st and st['kind']}"))
            elif base != latest_accepted:
                bad.append(("I1_step_from_stale_state", f"event {i}: step from base {base}, latest accepted {latest_accepted}"))
            if st is not None and st["t"] != e["t"]:
                bad.append(("I1_state_time_mismatch", f"event {i}"))
            # I2: after a rejection: same state, strictly smaller dt
            if pending_reject is not None:
                src_base, dt_rej = pending_reject
                if base != src_base:
                    bad.append(("I2_retry_from_other_state", f"event {i}: retry from base {base} instead of {src_base}"))
                if not (e["dt"] < dt_rej) and safety_le_one:
                    bad.append(("I2_retry_not_smaller", f"event {i}: retry dt {e['dt']} after rejected dt {dt_rej}"))
            # I3b: the attempt uses the controller's proposal faithfully (modulo clipping)
            if last_propose is not None:
                want = last_propose["dt_out"]
                if clip:
                    nxt = _next_checkpoint(save_at, e["t"], eps, entry)
                    if nxt is not None:
                        want = min(want, nxt - e["t"])
                if e["dt"] != want:
                    bad.append(("I3_attempt_differs_from_proposal", f"event {i}: attempted dt {e['dt']!r}, proposal (clipped) {want!r}"))
            # I4: clipping
            if clip:
                nxt = _next_checkpoint(save_at, e["t"], eps, entry)
                if nxt is not None and e["t"] + e["dt"] > nxt + ulp_slack * abs(nxt):
                    bad.append(("I4_step_beyond_checkpoint_despite_clipping", f"event {i}: {e['t']}+{e['dt']} > {nxt}"))
            # I8: no attempt once the final time has been reached
            if not (e["t"] + eps < t_final):
                bad.append(("I8_attempt_after_final_time", f"event {i}: step from t={e['t']}"))
            if not (e["dt"] > 0):
                bad.append(("I2_nonpositive_dt", f"event {i}: dt={e['dt']}"))
            last_step = e
        elif e["ev"] == "err":
            if last_step is None or e["prop"] != last_step["uid"] or e["prev"] != last_step["src"]:
                bad.append(("I1_error_estimate_on_wrong_states", f"event {i}"))
            if e["answer"] >= 1.0:
                accepted.add(e["prop"])
                prev_accepted = latest_accepted
                latest_accepted = e["prop"]
                n_accepted += 1
                last_interp_t = None
                pending_reject = None
            else:
                st = rec.states.get(e["prev"])
                pending_reject = (st["base"] if st else None, e["dt"])
        elif e["ev"] == "propose":
            fac = e["dt_out"] / e["dt_in"] if e["dt_in"] != 0 else float("inf")
            if fmin is not None and not (fmin * (1 - 1e-15) <= fac <= fmax * (1 + 1e-15)):
                bad.append(("I3_factor_outside_bounds", f"event {i}: factor {fac} not in [{fmin},{fmax}]"))
            last_propose = e
        elif e["ev"] in ("interp", "at_t1"):
            to = rec.states.get(e["to"])
            frm = rec.states.get(e["frm"])
            # `to` must be the latest accepted state
            if to is None or to["base"] != latest_accepted:
                bad.append(("I6_interpolation_target_not_latest_accepted", f"event {i}: to uid {e['to']}"))
            # `from` must be the most recent of {state the target was stepped from, last interpolation point}
            t_left = rec.states[prev_accepted]["t"] if latest_accepted != 0 else rec.states[0]["t"]
            if last_interp_t is not None:
                t_left = max(t_left, last_interp_t)
            if frm is None or frm["t"] != t_left:
                bad.append(("I6_interpolation_source_not_most_recent", f"event {i}: from t={frm and frm['t']}, expected {t_left}"))
            if e["ev"] == "interp":
                if not (e["t_from"] <= e["t"] <= e["t_to"]):
                    bad.append(("I6_interpolation_outside_interval", f"event {i}: {e['t_from']} <= {e['t']} <= {e['t_to']} fails"))
                last_interp_t = e["t"]
            else:
                if abs(e["t_to"] - e["t"]) > eps:
                    bad.append(("I5_at_t1_but_not_within_eps", f"event {i}: state t {e['t_to']} vs checkpoint {e['t']}"))
                last_interp_t = e["t_to"]
    if pending_reject is not None:
        bad.append(("I2_run_ended_on_rejection", "last attempt was rejected and never retried"))
    # I5 / I7 on the returned solution
    if reported_t is not None:
        want = list(save_at[1:]) if entry != "every_step" else None
        if want is not None:
            if len(reported_t) != len(want):
                bad.append(("I5_wrong_number_of_reports", f"{len(reported_t)} vs {len(want)}"))
            else:
                for j, (a, b) in enumerate(zip(reported_t, want)):
                    if not (abs(a - b) <= eps):
                        bad.append(("I5_reported_time_off", f"checkpoint {j + 1}: reported {a!r}, requested {b!r}"))
                if any(reported_t[j + 1] < reported_t[j] for j in range(len(reported_t) - 1)):
                    bad.append(("I5_reports_out_of_order", str(reported_t)))
        # I7: num_steps at each report = accepted attempts made before the report was produced
        acc_times = sorted(rec.states[u]["t"] for u in accepted if u != 0)
        # number of accepted attempts made when checkpoint j was reported: replay the events
        counts = _accepted_counts_at_reports(ev, entry)
        if counts is not None and reported_n is not None:
            if list(reported_n) != counts[: len(reported_n)] or len(counts) != len(reported_n):
                bad.append(("I7_num_steps_mismatch", f"reported {list(reported_n)} vs accepted-attempt counts {counts}"))
    return bad, n_accepted


def _next_checkpoint(save_at, t, eps, entry):
    for s in save_at[1:]:
        if t + eps < s:
            return s
    return None


def _accepted_counts_at_reports(ev, entry):
    """Number of accepted attempts at the moment each report (interp/at_t1) was produced."""
    counts = []
    acc = 0
    for e in ev:
        if e["ev"] == "err" and e["answer"] >= 1.0:
            acc += 1
            if entry == "every_step":
                pass
        elif e["ev"] in ("interp", "at_t1"):
            counts.append(acc)
    return counts
