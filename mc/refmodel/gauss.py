"""Reference Gaussian state-space algebra in 60-digit arithmetic (numpy object arrays of mpmath.mpf).

Covariance-form, textbook formulas only; no square roots of matrices, no preconditioning, no
probdiffeq import. State ordering is coefficient-major: x = [u, u', u'', ...], each block of length d.

Contents: integrated-Wiener transition (closed form), extended Kalman filter with the documented
Jacobian structure per factorisation (dense: full; blockdiag: per-dimension diagonal; isotropic:
trace/d * I), the three calibration modes, Rauch-Tung-Striebel smoothing with backward Markov
factorisation, Gaussian interpolation, joint covariances, Gaussian log-density, and the batch
(joint-conditioning) self-check.
"""

import mpmath
import numpy as np

mpmath.mp.dps = 60
mpf = mpmath.mpf


def M(x):
    """Exact conversion of floats / nested lists to an object array of mpf."""
    a = np.asarray(x, dtype=object)
    out = np.empty(a.shape, dtype=object)
    for idx in np.ndindex(a.shape):
        v = a[idx]
        out[idx] = v if isinstance(v, mpmath.mpf) else mpf(float(v)) if not isinstance(v, int) else mpf(v)
    return out


def zeros(*shape):
    out = np.empty(shape, dtype=object)
    out[...] = mpf(0)
    return out


def eye(n):
    out = zeros(n, n)
    for i in range(n):
        out[i, i] = mpf(1)
    return out


def kron(a, b):
    ra, ca = a.shape
    rb, cb = b.shape
    out = zeros(ra * rb, ca * cb)
    for i in range(ra):
        for j in range(ca):
            if a[i, j] != 0:
                out[i * rb:(i + 1) * rb, j * cb:(j + 1) * cb] = a[i, j] * b
    return out


def solve(A, B):
    """Solve A X = B by Gauss-Jordan elimination with partial pivoting (A square, nonsingular)."""
    A = A.copy()
    B = B.copy()
    n = A.shape[0]
    if B.ndim == 1:
        B = B.reshape(n, 1)
        vec = True
    else:
        vec = False
    for c in range(n):
        p = max(range(c, n), key=lambda r: abs(A[r, c]))
        if A[p, c] == 0:
            raise ZeroDivisionError("singular matrix in reference solve")
        if p != c:
            A[[c, p]] = A[[p, c]]
            B[[c, p]] = B[[p, c]]
        piv = A[c, c]
        A[c] = A[c] / piv
        B[c] = B[c] / piv
        for r in range(n):
            if r != c and A[r, c] != 0:
                f = A[r, c]
                A[r] = A[r] - f * A[c]
                B[r] = B[r] - f * B[c]
    return B[:, 0] if vec else B


def pinv_sym(S, rel=mpf(10) ** -40):
    """Moore-Penrose pseudo-inverse of a symmetric PSD matrix (via mpmath eigh)."""
    n = S.shape[0]
    ms = mpmath.matrix(n, n)
    for i in range(n):
        for j in range(n):
            ms[i, j] = S[i, j]
    E, Q = mpmath.eigsy(ms)
    top = max([abs(E[i]) for i in range(n)] + [mpf(0)])
    out = zeros(n, n)
    for k in range(n):
        if top > 0 and abs(E[k]) > rel * top:
            for i in range(n):
                for j in range(n):
                    out[i, j] += Q[i, k] * Q[j, k] / E[k]
    return out


def is_zero(S):
    return all(S[idx] == 0 for idx in np.ndindex(S.shape))


def fact(k):
    return mpmath.factorial(k)


def iwp_1d(q, h):
    """Unit-scale integrated Wiener process over a step h: x' = A x + N(0, Q)."""
    h = mpf(h) if not isinstance(h, mpmath.mpf) else h
    A = zeros(q + 1, q + 1)
    Q = zeros(q + 1, q + 1)
    for i in range(q + 1):
        for j in range(q + 1):
            if j >= i:
                A[i, j] = h ** (j - i) / fact(j - i)
            e = 2 * q + 1 - i - j
            Q[i, j] = h ** e / (e * fact(q - i) * fact(q - j))
    return A, Q


def iwp(q, d, h, base_scale):
    """IWP transition for d dimensions; base_scale is a length-d vector (per-dimension diffusion)."""
    A1, Q1 = iwp_1d(q, h)
    S = zeros(d, d)
    for k in range(d):
        S[k, k] = mpf(base_scale[k]) ** 2 if not isinstance(base_scale[k], mpmath.mpf) else base_scale[k] ** 2
    return kron(A1, eye(d)), kron(Q1, S)


def taylor_scaling(q, d, h):
    """W = diag(h^i / i!) (x) I_d: the coordinates in which the implementation is backward stable."""
    h = mpf(h)
    w = [h ** i / fact(i) for i in range(q + 1)]
    return np.array([w[i] for i in range(q + 1) for _ in range(d)], dtype=object)


# ------------------------------------------------------------------------------------------------
# Linearisation of polynomial constraints
# ------------------------------------------------------------------------------------------------


class PolyField:
    """f_k(z) = sum_{i<=j<=l} C[k,i,j,l] z_i z_j z_l,  z = (1, x_0..x_{m*d-1}, t).

    x are the first m Taylor coefficients (m = ODE order) in coefficient-major order.
    The same tensor drives the JAX callable of the harness; here it is evaluated in mpf.
    """

    def __init__(self, C, d, m):
        self.C = np.asarray(C, dtype=float)
        self.d, self.m = d, m
        self.nz = 1 + m * d + 1
        assert self.C.shape == (d, self.nz, self.nz, self.nz)
        self.terms = []
        for idx in np.ndindex(self.C.shape):
            if self.C[idx] != 0.0:
                self.terms.append((idx[0], idx[1:], mpf(float(self.C[idx]))))

    def z(self, x, t):
        return [mpf(1)] + list(x[: self.m * self.d]) + [t]

    def value(self, x, t):
        z = self.z(x, t)
        out = [mpf(0)] * self.d
        for k, (i, j, l), c in self.terms:
            out[k] += c * z[i] * z[j] * z[l]
        return np.array(out, dtype=object)

    def jac(self, x, t):
        """d f_k / d x_a for a in the m*d input coordinates: shape (d, m*d)."""
        z = self.z(x, t)
        J = zeros(self.d, self.m * self.d)
        for k, (i, j, l), c in self.terms:
            for pos, others in ((i, (j, l)), (j, (i, l)), (l, (i, j))):
                if 1 <= pos <= self.m * self.d:
                    J[k, pos - 1] += c * z[others[0]] * z[others[1]]
        return J

    def depends_on_t(self):
        tpos = self.nz - 1
        return any(tpos in ijl for _, ijl, _ in self.terms)


def structure_jacobian(J, d, m, structure):
    """Apply the documented Jacobian structure to each (d x d) block J_j = df/du^(j)."""
    if structure == "dense":
        return J
    out = zeros(*J.shape)
    for j in range(m):
        blk = J[:, j * d:(j + 1) * d]
        if structure == "blockdiag":
            for k in range(d):
                out[k, j * d + k] = blk[k, k]
        elif structure == "isotropic":
            tr = sum((blk[k, k] for k in range(d)), mpf(0)) / d
            for k in range(d):
                out[k, j * d + k] = tr
        else:
            raise ValueError(structure)
    return out


def linearize_ode(field, mean, t, q, lin, structure):
    """Return (H, b) with z = H x + b the linearised residual  u^(m) - f(u, .., t)."""
    d, m = field.d, field.m
    n = (q + 1) * d
    H = zeros(d, n)
    for k in range(d):
        H[k, m * d + k] = mpf(1)
    fx = field.value(mean, t)
    if lin == "ts0":
        return H, -fx
    J = structure_jacobian(field.jac(mean, t), d, m, structure)
    H[:, : m * d] = H[:, : m * d] - J
    b = -fx + J @ mean[: m * d]
    return H, b


# ------------------------------------------------------------------------------------------------
# Filtering / smoothing
# ------------------------------------------------------------------------------------------------


def whitened_sq(z, S):
    """z^T S^{-1} z (S symmetric positive definite)."""
    return (z @ solve(S, z))


class Degenerate(Exception):
    """The case has no well-defined posterior in exact arithmetic (e.g. a dynamic scale that is exactly zero
    with a noise-free initial state and no damping): excluded by a rule on the reference alone."""


class FilterResult:
    pass


def ekf(*, field, q, grid, mean0, std0, base_scale, lin="ts0", structure="dense", damp=0.0,
        calib="none", correction=True, constraint_init=False, relin=False, observe=None, transition=None):
    """Textbook extended Kalman filter on a grid. All inputs floats (converted exactly).

    Returns a FilterResult with per-time means/covs (calibrated as the library documents),
    per-time output scales, and the internals needed for smoothing.
    """
    d, m = field.d, field.m
    n = (q + 1) * d
    if transition is None:
        def transition(h):
            return iwp(q, d, h, base_scale)
    mean = M(mean0)
    P = zeros(n, n)
    s0 = M(std0)
    for i in range(n):
        P[i, i] = s0[i] ** 2
    R = eye(d) * (mpf(damp) ** 2)
    ts = [mpf(float(t)) for t in grid]
    floor_terms = []  # same, for the magnitudes before cancellation (conditioning of the residual)
    sq_terms = []  # per-datum whitened residual energy / d (scalar) or per-dimension vector (blockdiag)
    res = FilterResult()
    res.init_prior = (mean.copy(), P.copy())
    if constraint_init:
        H, b = linearize_ode(field, mean, ts[0], q, lin, structure)
        z = H @ mean + b
        S = H @ P @ H.T + R
        if is_zero(S):
            K = zeros(n, d)
            term = _zero_term(d, structure)
        else:
            Sinv = pinv_sym(S)
            K = P @ H.T @ Sinv
            term = _energy(z, S, d, structure, pinv=Sinv)
            floor_terms.append(_energy(_mag(H, mean, b), S, d, structure, pinv=Sinv))
        mean = mean - K @ z
        P = P - K @ S @ K.T
        sq_terms.append(term)
    filt = [(mean.copy(), P.copy())]
    preds, trans, scales_dyn = [], [], [_ones_scale(d, structure)]
    floors_dyn = [_zero_term(d, structure)]
    if observe is None:
        observe = [True] * len(ts)
    if not observe[-1]:
        raise ValueError("the last grid point must be a step end")
    j = 0  # index of the last step end (observed point)
    n_obs = 0
    while j < len(ts) - 1:
        kk = next(i for i in range(j + 1, len(ts)) if observe[i])
        # one solver step from ts[j] to ts[kk]; points in between are interpolation targets (no data there)
        A_full, Q_full = transition(ts[kk] - ts[j])
        mp_ = A_full @ mean
        H, b = linearize_ode(field, mp_, ts[kk], q, lin, structure)
        z = H @ mp_ + b
        if calib == "dynamic":
            S0 = H @ Q_full @ H.T + R
            e = _energy(z, S0, d, structure)
            sc = _sqrt_scale(e, structure)
            fl = _sqrt_scale(_energy(_mag(H, mp_, b), S0, d, structure), structure)
        else:
            e = None
        m_run, P_run = mean, P
        for i in range(j + 1, kk + 1):
            A, Q = transition(ts[i] - ts[i - 1])
            Qs = _scale_cov(Q, e, q, d, structure) if calib == "dynamic" else Q
            m_run = A @ m_run
            P_run = A @ P_run @ A.T + Qs
            preds.append((m_run.copy(), P_run.copy()))
            trans.append((A, Qs))
            if calib == "dynamic":
                scales_dyn.append(sc)
                floors_dyn.append(fl)
            if i < kk:
                filt.append((m_run.copy(), P_run.copy()))
        Pp = P_run
        S = H @ Pp @ H.T + R
        try:
            K = solve(S, H @ Pp).T
        except ZeroDivisionError:
            raise Degenerate(f"singular innovation covariance at grid point {kk} (exact arithmetic)") from None
        if calib != "dynamic":
            sq_terms.append(_energy(z, S, d, structure))
            floor_terms.append(_energy(_mag(H, mp_, b), S, d, structure))
        mean = mp_ - K @ z
        P = Pp - K @ S @ K.T
        P = (P + P.T) / 2
        filt.append((mean.copy(), P.copy()))
        n_obs += 1
        j = kk
    res.observe = list(observe)
    res.ts, res.filt, res.preds, res.trans = ts, filt, preds, trans
    res.q, res.d = q, d
    N = n_obs
    res.num_steps = n_obs
    if calib == "mle":
        acc = sum(sq_terms[1:], sq_terms[0]) / len(sq_terms)
        if correction:
            acc = acc / N
        res.scale2 = acc  # scalar or per-dimension vector
        res.scale = _sqrt_scale(acc, structure)
        res.scales = [res.scale for _ in ts]
        facc = sum(floor_terms[1:], floor_terms[0]) / len(floor_terms) if floor_terms else _zero_term(d, structure)
        if correction:
            facc = facc / N
        res.scale_floors = [_sqrt_scale(facc, structure) for _ in ts]
    elif calib == "dynamic":
        res.scale2 = None
        res.scale = None
        res.scales = scales_dyn
        res.scale_floors = floors_dyn
    else:
        res.scale2 = None
        res.scale = _ones_scale(d, structure)
        res.scales = [res.scale for _ in ts]
        res.scale_floors = [_zero_term(d, structure) for _ in ts]
    res.structure = structure
    res.calib = calib
    return res


def _mag(H, m, b):
    """Magnitude of the residual H m + b before cancellation: |H| |m| + |b| (its rounding error scales with this)."""
    out = []
    for i in range(H.shape[0]):
        out.append(sum((abs(H[i, j]) * abs(m[j]) for j in range(H.shape[1])), mpf(0)) + abs(b[i]))
    return np.array(out, dtype=object)


def _ones_scale(d, structure):
    return np.array([mpf(1)] * d, dtype=object) if structure == "blockdiag" else mpf(1)


def _zero_term(d, structure):
    return np.array([mpf(0)] * d, dtype=object) if structure == "blockdiag" else mpf(0)


def _energy(z, S, d, structure, pinv=None):
    """Whitened residual energy per observed dimension: scalar (dense/isotropic) or vector (blockdiag)."""
    if structure == "blockdiag":
        return np.array([z[k] ** 2 / S[k, k] if S[k, k] != 0 else mpf(0) for k in range(d)], dtype=object)
    if pinv is not None:
        return (z @ pinv @ z) / d
    return whitened_sq(z, S) / d


def _sqrt_scale(e, structure):
    if structure == "blockdiag":
        return np.array([mpmath.sqrt(v) for v in e], dtype=object)
    return mpmath.sqrt(e)


def _scale_cov(Q, e, q, d, structure):
    """Multiply a covariance by a (per-dimension) squared scale."""
    if structure != "blockdiag":
        return Q * e
    n = (q + 1) * d
    out = Q.copy()
    for i in range(n):
        for j in range(n):
            out[i, j] = Q[i, j] * mpmath.sqrt(e[i % d]) * mpmath.sqrt(e[j % d])
    return out


def calibrated(res, P, k=None):
    """Covariance as returned by the library: unit-scale covariance times the calibrated scale^2."""
    if res.calib != "mle":
        return P
    return _scale_cov(P, res.scale2, res.q, res.d, res.structure)


def rts(res):
    """Rauch-Tung-Striebel smoother on a FilterResult; returns smoothed (mean, cov) and gains G_k."""
    N = len(res.filt) - 1
    sm = [None] * (N + 1)
    G = [None] * N
    sm[N] = res.filt[N]
    for k in range(N - 1, -1, -1):
        mf, Pf = res.filt[k]
        mp_, Pp = res.preds[k]
        A, _ = res.trans[k]
        Gk = _gain(Pf @ A.T, Pp)
        ms, Ps = sm[k + 1]
        m_ = mf + Gk @ (ms - mp_)
        P_ = Pf + Gk @ (Ps - Pp) @ Gk.T
        sm[k] = (m_, (P_ + P_.T) / 2)
        G[k] = Gk
    return sm, G


def _gain(C, Pp):
    """C Pp^{-1} with Pp symmetric PSD (possibly singular: pseudo-inverse)."""
    try:
        return solve(Pp, C.T).T
    except ZeroDivisionError:
        return C @ pinv_sym(Pp)


def joint_cov(sm, G, idx):
    """Joint smoothing covariance of the states at the grid indices idx (increasing)."""
    n = sm[0][0].shape[0]
    K = len(idx)
    out = zeros(K * n, K * n)
    for a, ia in enumerate(idx):
        for b, ib in enumerate(idx):
            if ia == ib:
                blk = sm[ia][1]
            elif ia < ib:
                Mx = eye(n)
                for k in range(ia, ib):
                    Mx = Mx @ G[k]
                blk = Mx @ sm[ib][1]
            else:
                Mx = eye(n)
                for k in range(ib, ia):
                    Mx = Mx @ G[k]
                blk = (Mx @ sm[ia][1]).T
            out[a * n:(a + 1) * n, b * n:(b + 1) * n] = blk
    return out


def batch_posterior(*, field, q, grid, mean0, std0, base_scale, lins, damp):
    """Self-check oracle: condition the joint prior over all grid points on all (fixed) linearised
    observations at once. `lins[k] = (H, b)` are the linearisations the recursive filter used."""
    d = field.d
    n = (q + 1) * d
    ts = [mpf(float(t)) for t in grid]
    N = len(ts) - 1
    m0 = M(mean0)
    P0 = zeros(n, n)
    s0 = M(std0)
    for i in range(n):
        P0[i, i] = s0[i] ** 2
    means = [m0]
    As, Qs = [], []
    for k in range(1, N + 1):
        A, Q = iwp(q, d, ts[k] - ts[k - 1], base_scale)
        As.append(A)
        Qs.append(Q)
        means.append(A @ means[-1])
    # joint prior covariance
    covs = [[None] * (N + 1) for _ in range(N + 1)]
    covs[0][0] = P0
    for k in range(1, N + 1):
        covs[k][k] = As[k - 1] @ covs[k - 1][k - 1] @ As[k - 1].T + Qs[k - 1]
    for i in range(N + 1):
        for j in range(i + 1, N + 1):
            covs[i][j] = covs[i][j - 1] @ As[j - 1].T
            covs[j][i] = covs[i][j].T
    big_m = np.concatenate(means)
    big_P = zeros((N + 1) * n, (N + 1) * n)
    for i in range(N + 1):
        for j in range(N + 1):
            big_P[i * n:(i + 1) * n, j * n:(j + 1) * n] = covs[i][j]
    Hbig = zeros(N * d, (N + 1) * n)
    bbig = zeros(N * d)
    for k in range(1, N + 1):
        H, b = lins[k - 1]
        Hbig[(k - 1) * d:k * d, k * n:(k + 1) * n] = H
        bbig[(k - 1) * d:k * d] = b
    R = eye(N * d) * (mpf(damp) ** 2)
    S = Hbig @ big_P @ Hbig.T + R
    z = Hbig @ big_m + bbig
    K = solve(S, Hbig @ big_P).T
    post_m = big_m - K @ z
    post_P = big_P - K @ S @ K.T
    return post_m, post_P


def logpdf(x, mean, cov):
    """log N(x; mean, cov) for a symmetric positive definite cov (mpf Cholesky)."""
    n = len(mean)
    ms = mpmath.matrix(n, n)
    for i in range(n):
        for j in range(n):
            ms[i, j] = cov[i, j]
    L = mpmath.cholesky(ms)
    r = mpmath.matrix([xi - mi for xi, mi in zip(x, mean)])
    w = mpmath.lu_solve(L, r)  # L is lower triangular; lu_solve is general and exact enough at 60 digits
    quad = sum(w[i] ** 2 for i in range(n))
    logdet = 2 * sum(mpmath.log(L[i, i]) for i in range(n))
    return -(quad + logdet + n * mpmath.log(2 * mpmath.pi)) / 2


def tofloat(a):
    return np.array([[float(v) for v in row] for row in a]) if a.ndim == 2 else np.array([float(v) for v in a])
