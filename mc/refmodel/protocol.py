"""Plain-Python reference of the adaptive stepping protocol (Kraemer 2025, as documented in
solve_adaptive_save_at / RejectionLoop). Written from the documentation; does not import probdiffeq.

Everything is IEEE double arithmetic with +, -, *, /, min, max only, so that for controllers that
use only these operations the trace is bitwise comparable with the implementation's.

Events (tuples):
  ("attempt", t_from, dt, answer)         one solver.step + one error estimate
  ("propose", dt_in, answer, dt_out)      one controller.apply
  ("interp", t, t_from, t_to)             interpolation strictly inside (t_from, t_to)
  ("at_t1", t_report, t_from, t_to)       report of the step end itself (within eps of the checkpoint)
  ("report", index, t, num_steps)         value stored for checkpoint `index`
"""


class RefIntegral:
    def __init__(self, safety=0.95, factor_min=0.2, factor_max=10.0):
        self.safety, self.factor_min, self.factor_max = safety, factor_min, factor_max

    def init(self, dt):
        return ()

    def apply(self, dt, state, power):
        ratio = self.safety * power
        fac = max(self.factor_min, min(ratio, self.factor_max))
        return fac * dt, ()


class RefPI:
    def __init__(self, safety=0.95, factor_min=0.2, factor_max=10.0, exponent_integral=0.3, exponent_proportional=0.4):
        self.safety, self.factor_min, self.factor_max = safety, factor_min, factor_max
        self.ei, self.ep = exponent_integral, exponent_proportional

    def init(self, dt):
        return 1.0

    def apply(self, dt, prev, power):
        ratio = self.safety * power**self.ei * (power / prev) ** self.ep
        fac = max(self.factor_min, min(ratio, self.factor_max))
        if power >= 1.0:
            prev = power
        return fac * dt, prev


class RefScripted:
    """Controller whose factors are dictated by a script: state = number of calls so far."""

    def __init__(self, factors, default_accept=1.0, default_reject=0.5):
        self.factors, self.da, self.dr = list(factors), default_accept, default_reject

    def init(self, dt):
        return 0

    def apply(self, dt, k, power):
        if power < 1.0:
            fac = self.dr
        elif k < len(self.factors):
            fac = self.factors[k]
        else:
            fac = self.da
        return fac * dt, k + 1


def run(save_at, dt0, eps, clip, control, answer, horizon=10_000):
    """Return (events, reports). `answer(k, t_from, dt)` is the k-th error answer (power)."""
    ev = []
    t_step = save_at[0]
    t_interp = save_at[0]
    dt = dt0
    n = 0
    k = 0
    cs = control.init(dt0)
    reports = []
    attempts = 0
    for idx, t1 in enumerate(save_at[1:], start=1):
        first = True
        last = None
        while first or t_step + eps < t1:
            first = False
            if t_step + eps < t1:
                while True:
                    h = min(dt, t1 - t_step) if clip else dt
                    a = answer(k, t_step, h)
                    k += 1
                    attempts += 1
                    if attempts > horizon:
                        raise RuntimeError("reference protocol exceeded its horizon")
                    ev.append(("attempt", t_step, h, a))
                    dt_new, cs = control.apply(h, cs, a)
                    ev.append(("propose", h, a, dt_new))
                    dt = dt_new
                    if not (a < 1.0):
                        break
                t_interp = t_step
                t_step = t_step + h
                n += 1
            if t_step + eps < t1:
                last = None
            elif t_step > t1 + eps:
                ev.append(("interp", t1, t_interp, t_step))
                t_interp = t1
                last = (t1, n)
            else:
                ev.append(("at_t1", t_step, t_interp, t_step))
                t_interp = t_step
                last = (t_step, n)
        ev.append(("report", idx, last[0], last[1]))
        reports.append(last)
    return ev, reports
