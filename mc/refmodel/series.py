"""Exact power-series arithmetic (Fractions or mpf) for solutions of polynomial ODEs and for total
time derivatives of polynomial expressions along a curve. No probdiffeq import.

A polynomial field of differential order m in d dimensions is a list of terms (k, (i, j, l), c):
f_k(z) += c * z_i z_j z_l with z = (1, u_1..u_d, u'_1..u'_d, ..., t)  (m blocks of u-derivatives).
"""

from fractions import Fraction
from math import factorial


def mul(a, b, K):
    """Truncated Cauchy product of two coefficient lists (normalised Taylor coefficients), order <= K."""
    out = [0] * (K + 1)
    for i, ai in enumerate(a[: K + 1]):
        if ai == 0:
            continue
        for j, bj in enumerate(b[: K + 1 - i]):
            if bj != 0:
                out[i + j] += ai * bj
    return out


def terms_from_tensor(C):
    import numpy as np

    C = np.asarray(C, dtype=float)
    out = []
    for idx in np.ndindex(C.shape):
        if C[idx] != 0.0:
            out.append((idx[0], tuple(idx[1:]), Fraction(float(C[idx]))))
    return out


def eval_series(terms, d, zs, K):
    """Series (order <= K) of f(z(s)) for series zs of all z variables."""
    out = [[0] * (K + 1) for _ in range(d)]
    for k, (i, j, l), c in terms:
        p = mul(mul(zs[i], zs[j], K), zs[l], K)
        for e in range(K + 1):
            if p[e] != 0:
                out[k][e] += c * p[e]
    return out


def ode_taylor(terms, d, m, inits, t0, K):
    """Normalised Taylor coefficients U[k][dim] (k = 0..m-1+K) of the solution of u^(m) = f(u,..,u^(m-1),t).

    inits: list of m vectors (u(t0), u'(t0), ...), exact (Fractions). Returns derivatives
    [u, u', ..., u^(m-1+K)] at t0 as lists of Fractions (unnormalised, i.e. multiplied by k!).
    """
    one = Fraction(1)
    U = [[Fraction(inits[j][k]) / factorial(j) for k in range(d)] for j in range(m)]  # normalised
    for k in range(K):
        # series of all variables up to order k (need f's k-th coefficient)
        order = k
        zs = [[one] + [0] * order]
        for j in range(m):
            for dim in range(d):
                # series of u^(j): coefficient e is U[e+j] * (e+j)!/e!
                ser = []
                for e in range(order + 1):
                    ser.append(U[e + j][dim] * Fraction(factorial(e + j), factorial(e)) if e + j < len(U) else 0)
                zs.append(ser)
        zs.append([Fraction(t0)] + ([one] + [0] * (order - 1) if order >= 1 else []))
        F = eval_series(terms, d, zs, order)
        # u^(m) series coefficient k: U[k+m] * (k+m)!/k! = F[k]
        U.append([F[dim][k] * Fraction(factorial(k), factorial(k + m)) for dim in range(d)])
    return [[U[j][dim] * factorial(j) for dim in range(d)] for j in range(len(U))]


def total_derivatives(terms, dout, nblocks, d, coeffs, t0, M):
    """Derivatives 0..M w.r.t. time of g(u, u', ..., u^(nblocks-1), t) along a curve whose
    derivatives at t0 are coeffs = [u, u', u'', ...] (enough of them: nblocks + M).

    Returns list over derivative order of vectors (length dout), unnormalised."""
    one = Fraction(1)
    zs = [[one] + [0] * M]
    for j in range(nblocks):
        for dim in range(d):
            ser = []
            for e in range(M + 1):
                # u^(j)(t0+s) = sum_e u^(j+e)(t0) s^e / e!
                ser.append(Fraction(coeffs[j + e][dim]) / factorial(e) if j + e < len(coeffs) else 0)
            zs.append(ser)
    zs.append([Fraction(t0)] + ([one] + [0] * (M - 1) if M >= 1 else []))
    G = eval_series(terms, dout, zs, M)
    return [[G[k][e] * factorial(e) for k in range(dout)] for e in range(M + 1)]
