"""Small helpers shared by the property modules."""
import traceback


def result(case, failures=(), transitions=1, traces=0, outcome="ok", dev=0.0, **kw):
    r = {"id": case["id"], "failures": list(failures), "transitions": int(transitions),
         "traces": int(traces), "outcome": str(outcome), "dev": float(dev)}
    r.update(kw)
    return r


def fail(kind, detail=""):
    return {"kind": str(kind), "detail": str(detail)[:1500]}


def guarded(case, fn):
    """Run fn(case) -> result dict; an exception raised by the code under test on a valid case
    is itself a failure of the case (the property requires a value), not a harness error."""
    try:
        return fn(case)
    except HarnessError:
        raise
    except Exception as e:  # noqa: BLE001
        tb = traceback.format_exc()
        return result(case, [fail("exception:" + type(e).__name__, tb[-1200:])], outcome="exception")


class HarnessError(Exception):
    """Raised when the harness (reference model, driver) is itself inconsistent."""


def product(**axes):
    """Cartesian product of named axes, as dicts, in deterministic order."""
    import itertools
    keys = list(axes)
    for combo in itertools.product(*[axes[k] for k in keys]):
        yield dict(zip(keys, combo))
