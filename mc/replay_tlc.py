"""E4: TLA+ model of the stepping protocol, conformance-checked edge by edge against the implementation.

TLC explores tla/AdaptiveLoop.tla exhaustively (invariants + termination) and dumps the labelled state
graph; every edge (s -> s') is then replayed on the real RejectionLoop.loop: the model state is mapped to a
real TimeStepState, the scripted error estimator / lattice controller reproduce the edge's choice
(lastR' rejections, factor lastFac'), and the implementation's successor must EQUAL the model's successor
(step_from.t, interp_from.t, dt, checkpoint index, branch, reported time). The real loop is a pure function
of that state, so edge conformance implies conformance of every path. All values are dyadic: equality is exact.
"""
import os
import re
import shutil
import subprocess
import tempfile

UNIT = 2.0 ** -21  # one lattice unit = eps / 2
ROOT = os.path.dirname(os.path.dirname(os.path.abspath(__file__)))


def run_tlc(clip, workdir):
    tla = os.path.join(ROOT, "tla")
    for f in ("AdaptiveLoop.tla", "MC.tla", f"MC_clip{'TRUE' if clip else 'FALSE'}.cfg"):
        shutil.copy(os.path.join(tla, f), workdir)
    dump = os.path.join(workdir, "graph")
    cmd = ["tlc", "-workers", "1", "-noGenerateSpecTE", "-metadir", os.path.join(workdir, "meta"), "-config", f"MC_clip{'TRUE' if clip else 'FALSE'}.cfg",
           "-dump", "dot,actionlabels", dump, "MC.tla"]
    p = subprocess.run(cmd, cwd=workdir, capture_output=True, text=True, timeout=1800)
    out = p.stdout + p.stderr
    ok = "Model checking completed. No error has been found." in out
    m = re.search(r"(\d[\d,]*) states generated, (\d[\d,]*) distinct states found", out)
    stats = dict(generated=int(m.group(1).replace(",", "")), distinct=int(m.group(2).replace(",", ""))) if m else {}
    return ok, out, dump + ".dot", stats


def parse_dot(path):
    nodes, edges = {}, []
    node_re = re.compile(r'^(-?\d+) \[label="(.*?)"[,\]]')
    edge_re = re.compile(r'^(-?\d+) -> (-?\d+) \[label="(\w+)"')
    for line in open(path):
        m = edge_re.match(line)
        if m:
            edges.append((m.group(1), m.group(2), m.group(3)))
            continue
        m = node_re.match(line)
        if m:
            st = {}
            for part in m.group(2).split("\\n"):
                part = part.replace("/\\\\ ", "").strip()
                if " = " in part:
                    k, v = part.split(" = ", 1)
                    v = v.strip()
                    st[k.strip()] = v.strip('\\"') if v.startswith('\\"') or v.startswith('"') else int(v)
            nodes[m.group(1)] = st
    return nodes, edges


SAVE_AT_UNITS = [0, 8 * 65536, 16 * 65536, 16 * 65536 + 1, 24 * 65536 - 1, 32 * 65536]  # must equal SaveAtC in tla/MC.tla
EPS_UNITS, LO_UNITS, HI_UNITS = 2, 65536, 1048576


def replay(clip, ctx):
    """Return (failures, n_states, n_edges, tlc_stats)."""
    jax, jnp, ivpsolve, test_util, InterpResult = ctx
    from mc import xstate

    tmp = tempfile.mkdtemp(prefix="verif_tlc_")
    fails = []
    try:
        ok, out, dot, stats = run_tlc(clip, tmp)
        if not ok:
            fails.append(("tla_model_violates_its_own_properties", out[-800:]))
            return fails, 0, 0, stats
        nodes, edges = parse_dot(dot)
    finally:
        pass
    eps = EPS_UNITS * UNIT
    save_at = [u * UNIT for u in SAVE_AT_UNITS]

    def py_while(cond, body, init):
        s = init
        while cond(s):
            s = body(s)
        return s

    n_edges = 0
    with jax.disable_jit():
        for src, dst, label in edges:
            a, b = nodes[src], nodes[dst]
            if src == dst and a["idx"] > len(save_at) - 1 + 1:
                continue
            if a["idx"] > len(save_at):
                continue  # terminal stuttering (Done)
            n_edges += 1
            r, fac = b["lastR"], b["lastFac"]
            rec = xstate.Recorder()
            answers = [0.5] * r + [2.0 if fac == 2 else 1.0]
            ctrl = xstate.LatticeControl(jnp, lo=LO_UNITS * UNIT, hi=HI_UNITS * UNIT)
            solver, err, cproxy, Livelock = xstate.make_components(jnp, rec, lambda k, t, dt: answers[k] if k < len(answers) else 1.0, ctrl, InterpResult, 50)
            loop = ivpsolve.RejectionLoop(solver=solver, clip_dt=clip, error=err, control=cproxy, while_loop=py_while)
            s_step = xstate.S(jnp.asarray(a["tStep"] * UNIT), jnp.asarray(0), jnp.asarray(1))
            s_int = xstate.S(jnp.asarray(a["tInterp"] * UNIT), jnp.asarray(0), jnp.asarray(2))
            rec.states[1] = dict(t=a["tStep"] * UNIT, n=0, kind="src", base=1, parent=None)
            rec.states[2] = dict(t=a["tInterp"] * UNIT, n=0, kind="src_interp", base=None, parent=None)
            rec.counter = 3
            ts = ivpsolve.TimeStepState(dt=jnp.asarray(a["dt"] * UNIT), step_from=s_step, interp_from=s_int, control=(), error_step_from=())
            t1 = save_at[a["idx"] - 1]
            sol, ts2 = loop.loop(ts, t1=t1, atol=1.0, rtol=1.0, eps=eps, damp=0.0)
            got = dict(tStep=float(ts2.step_from.t) / UNIT, tInterp=float(ts2.interp_from.t) / UNIT, dt=float(ts2.dt) / UNIT, lastT=float(sol.t) / UNIT)
            kinds = [e["ev"] for e in rec.events if e["ev"] in ("interp", "at_t1")]
            branch = "beyond" if "interp" in kinds else ("at" if "at_t1" in kinds else "skip")
            idx2 = a["idx"] + (0 if branch == "skip" else 1)
            n_rej = sum(1 for e in rec.events if e["ev"] == "err" and e["answer"] < 1.0)
            stepped = any(e["ev"] == "step" for e in rec.events)
            want = dict(tStep=b["tStep"], tInterp=b["tInterp"], dt=b["dt"], lastT=b["lastT"])
            if got != {k: float(v) for k, v in want.items()} or branch != b["lastBranch"] or idx2 != b["idx"] or (stepped and n_rej != r) or (not stepped and b["lastFac"] != 0):
                fails.append(("implementation_differs_from_tla_model", f"clip={clip} from {a} with r={r} fac={fac}: implementation {got} branch={branch} idx={idx2} rejections={n_rej}; model {b}"))
                if len(fails) > 5:
                    break
    shutil.rmtree(tmp, ignore_errors=True)
    return fails, len(nodes), n_edges, stats
