"""C20 - malformed inputs are rejected loudly instead of being broadcast silently.

Fault enumeration: every public constructor / entry point named in the statement x every single-field corruption
of an otherwise valid argument set (rank -1/+1, length -1/+1, the broadcastable length-1 trap, wrong tree container,
extra tree level, float/int where bool is required, plain function where a JetOde/JetResidual is required, lift orders
outside the admissible range, ODE order != number of coefficients, constraint output shape != state shape, too few
ensemble members) x three factorisations. Valid base sets use d = 3, n = 3 so that no wrong shape is accidentally
right. Oracle: a Python exception is raised at construction or first use and no numeric result is produced; the
unmodified base call succeeds (so the harness itself is known to be valid); unsuitable strategy/routine pairings warn
with a remedy.
"""

import warnings

import numpy as np

from mc import core

LEVEL = "fault_enumeration"
ENGINE = "E2 xprod (fault enumeration)"
TECHNIQUE = "exhaustive single-fault enumeration: every entry point x every corruption from a fixed menu x factorisations; oracle = exception before any number is produced (and the uncorrupted call succeeds)"
LEVEL_TEXT = "Every (entry point, corruption) pair of the menu is executed through construction and first use (a one-step solve / evaluation); the call must raise."
LEVEL_NOTE = "The corruption menu is restricted to what the statement lists; documented broadcasting (scalar is_exact per coefficient) is not a corruption. Any Exception subclass counts as loud."
TIMEOUT_S = {"quick": 900, "thorough": 1800}
D, N = 3, 3


def enumerate_cases(tier, seed):
    cases = []
    for ssm in ("dense", "isotropic", "blockdiag"):
        for ep in ("prior_tcoeffs", "prior_output_scale", "prior_is_exact", "prior_diffuse_std", "transition_output_scale", "constraints", "loss_terminal", "loss_timeseries",
                   "error_residual_shape"):
            cases.append(dict(id=f"{ep}/{ssm}", group=ssm, entry=ep, ssm=ssm, weight=10))
    for ep in ("prior_exponential", "jetexpand", "jet_lift", "ensembles", "jacobian_handlers", "warnings"):
        cases.append(dict(id=f"{ep}/-", group="misc", entry=ep, ssm="dense", weight=10))
    return cases


def describe(tier, seed):
    return dict(
        rule="case = (entry point, factorisation); inside: every corruption of the menu that applies to this entry point, plus the uncorrupted base call; "
             "non-trivial = every corruption (each is a distinct malformed input)",
        exhaustive=True,
        alphabets=dict(entry_points=["prior_wiener_integrated (tcoeffs, output_scale, is_exact)", "prior_wiener_integrated_diffuse (std)", "prior.transition (output_scale)",
                                     "prior_exponential (ODE order / type)", "constraint_ode_ts0 / ts1 / residual (type)", "jetexpand_* (type, lifted)", "jet_lift (lift_by)",
                                     "loss_lml_terminal_values / loss_lml_timeseries (std, posterior type)", "error_residual_std (shape)", "blockdiag_cholesky_from_ensembles",
                                     "Jacobian handlers", "solve_* suitability warnings"],
                       corruptions=["rank-1", "rank+1", "length-1", "length+1", "length 1 (broadcast trap)", "wrong container", "extra tree level", "float/int for bool",
                                    "plain function", "lift_by out of range / non-int", "ODE order mismatch", "constraint shape mismatch", "ensembles < n"]),
        bounds=dict(d=D, n=N),
        assumptions=["scalar is_exact per coefficient is documented broadcasting, not a corruption"],
    )


def run_cases(cases):
    from mc import jaxenv

    jaxenv.setup()
    for case in cases:
        yield core.guarded(case, _run)


def _base():
    import jax.numpy as jnp

    return [jnp.asarray([0.5, 0.25, -0.75]), jnp.asarray([0.1, -0.2, 0.3]), jnp.asarray([0.0, 0.5, 1.0])]


def _vf():
    from probdiffeq import probdiffeq

    return probdiffeq.ode(lambda u, *, t: -u * (1.0 + t), jacobian=probdiffeq.jacobian_materialize())


def _use_prior(ssm, prior):
    """First use: one fixed step with the uncalibrated filter; returns numbers."""
    import jax.numpy as jnp
    from probdiffeq import ivpsolve, probdiffeq

    solver = probdiffeq.solver(strategy=probdiffeq.strategy_filter(), constraint=ssm.constraint_ode_ts0(_vf()))
    sol = ivpsolve.solve_fixed_grid(solver=solver)(prior, grid=jnp.asarray([0.0, 0.1, 0.2]))
    return np.asarray(sol.u.mean[0])


def _scenarios(entry, ssm_name):
    """Return (base_call, {corruption name: call}). Each call builds and uses; it returns numbers or raises."""
    import jax.numpy as jnp
    from probdiffeq import ivpsolve, probdiffeq

    from mc import impl

    ssm = impl.SSM[ssm_name]()
    tcs = _base()
    scal_ok = jnp.asarray(2.0) if ssm_name == "isotropic" else jnp.asarray([2.0, 0.5, 1.0])
    S = {}
    if entry == "prior_tcoeffs":
        base = lambda: _use_prior(ssm, ssm.prior_wiener_integrated(tcs))
        S["stacked_array_instead_of_list"] = lambda: _use_prior(ssm, ssm.prior_wiener_integrated(jnp.stack(tcs)))
        S["one_coefficient_length-1"] = lambda: _use_prior(ssm, ssm.prior_wiener_integrated([tcs[0], tcs[1][:2], tcs[2]]))
        S["one_coefficient_length+1"] = lambda: _use_prior(ssm, ssm.prior_wiener_integrated([tcs[0], jnp.ones((4,)), tcs[2]]))
        S["one_coefficient_length1_broadcast_trap"] = lambda: _use_prior(ssm, ssm.prior_wiener_integrated([tcs[0], jnp.ones((1,)), tcs[2]]))
        S["one_coefficient_rank+1"] = lambda: _use_prior(ssm, ssm.prior_wiener_integrated([tcs[0], tcs[1][:, None], tcs[2]]))
        S["one_coefficient_scalar"] = lambda: _use_prior(ssm, ssm.prior_wiener_integrated([tcs[0], jnp.asarray(1.0), tcs[2]]))
        S["one_coefficient_other_container"] = lambda: _use_prior(ssm, ssm.prior_wiener_integrated([tcs[0], {"a": tcs[1]}, tcs[2]]))
    elif entry == "prior_output_scale":
        base = lambda: _use_prior(ssm, ssm.prior_wiener_integrated(tcs, output_scale=scal_ok))
        if ssm_name == "isotropic":
            bad = {"length1_broadcast_trap": jnp.ones((1,)), "vector_d": jnp.ones((D,)), "rank2": jnp.ones((1, 1)), "list_container": [1.0], "dict_container": {"s": 1.0}}
        else:
            bad = {"length-1": jnp.ones((D - 1,)), "length+1": jnp.ones((D + 1,)), "length1_broadcast_trap": jnp.ones((1,)), "scalar": jnp.asarray(1.0),
                   "rank+1_column": jnp.ones((D, 1)), "rank+1_row": jnp.ones((1, D)), "list_container": [1.0, 1.0, 1.0], "extra_tree_level": (jnp.ones((D,)),)}
        for k, v in bad.items():
            S[k] = (lambda v=v: _use_prior(ssm, ssm.prior_wiener_integrated(tcs, output_scale=v)))
    elif entry == "prior_is_exact":
        ok = [True, False, False]
        base = lambda: _use_prior(ssm, ssm.prior_wiener_integrated(tcs, is_exact=ok))
        bad = {"float_flag": 1.0, "int_flag": 1, "list_of_ints": [1, 0, 0], "list_of_floats": [1.0, 0.0, 0.0], "list_length-1": [True, False], "list_length+1": [True, False, False, True],
               "string": "yes", "none": None, "dict_container": {"a": True}}
        if ssm_name != "isotropic":
            bad["leaf_wrong_length"] = [jnp.asarray([True, False]), False, False]
            bad["leaf_int_array"] = [jnp.asarray([1, 0, 1]), False, False]
        else:
            bad["leaf_vector_where_scalar"] = [jnp.asarray([True, False, True]), False, False]
        for k, v in bad.items():
            S[k] = (lambda v=v: _use_prior(ssm, ssm.prior_wiener_integrated(tcs, is_exact=v)))
    elif entry == "prior_diffuse_std":
        std_ok = [jnp.asarray(0.1), jnp.asarray(0.2), jnp.asarray(0.3)] if ssm_name == "isotropic" else [0.1 * jnp.ones((D,)), 0.2 * jnp.ones((D,)), 0.3 * jnp.ones((D,))]
        base = lambda: _use_prior(ssm, ssm.prior_wiener_integrated_diffuse(tcs, std_ok))
        bad = {"list_length-1": std_ok[:2], "list_length+1": [*std_ok, std_ok[0]], "stacked_array": jnp.stack([jnp.broadcast_to(s, (D,)) for s in std_ok])}
        if ssm_name == "isotropic":
            bad["vector_leaf_where_scalar"] = [0.1 * jnp.ones((D,)), std_ok[1], std_ok[2]]
            bad["length1_leaf"] = [jnp.ones((1,)), std_ok[1], std_ok[2]]
        else:
            bad["leaf_length-1"] = [0.1 * jnp.ones((D - 1,)), std_ok[1], std_ok[2]]
            bad["leaf_length1_broadcast_trap"] = [jnp.ones((1,)), std_ok[1], std_ok[2]]
            bad["leaf_rank+1"] = [0.1 * jnp.ones((D, 1)), std_ok[1], std_ok[2]]
        for k, v in bad.items():
            S[k] = (lambda v=v: _use_prior(ssm, ssm.prior_wiener_integrated_diffuse(tcs, v)))
    elif entry == "transition_output_scale":
        prior = ssm.prior_wiener_integrated(tcs)
        ok = jnp.ones((D,)) if ssm_name == "blockdiag" else jnp.asarray(1.0)

        def use(v):
            tr = prior.transition(dt=0.1, output_scale=v)
            return np.asarray(tr.marginalise(prior.init).mean_flat)

        base = lambda: use(ok)
        if ssm_name == "blockdiag":
            bad = {"scalar": jnp.asarray(1.0), "length1_broadcast_trap": jnp.ones((1,)), "length-1": jnp.ones((D - 1,)), "length+1": jnp.ones((D + 1,)), "rank+1": jnp.ones((D, 1))}
        else:
            bad = {"length1_broadcast_trap": jnp.ones((1,)), "vector_d": jnp.ones((D,)), "rank2": jnp.ones((1, 1))}
        for k, v in bad.items():
            S[k] = (lambda v=v: use(v))
    elif entry == "constraints":
        def use_con(make):
            prior = ssm.prior_wiener_integrated(tcs)
            solver = probdiffeq.solver(strategy=probdiffeq.strategy_filter(), constraint=make())
            sol = ivpsolve.solve_fixed_grid(solver=solver)(prior, grid=jnp.asarray([0.0, 0.1]))
            return np.asarray(sol.u.mean[0])

        plain = lambda u, *, t: -u
        res = probdiffeq.residual_velocity(lambda u, du, *, t: du + u, jacobian=probdiffeq.jacobian_materialize())
        base = lambda: use_con(lambda: ssm.constraint_ode_ts1(_vf()))
        S["ts0_plain_function"] = lambda: use_con(lambda: ssm.constraint_ode_ts0(plain))
        S["ts1_plain_function"] = lambda: use_con(lambda: ssm.constraint_ode_ts1(plain))
        S["residual_plain_function"] = lambda: use_con(lambda: ssm.constraint_residual(plain))
        S["ts0_given_residual"] = lambda: use_con(lambda: ssm.constraint_ode_ts0(res))
        S["ts1_given_residual"] = lambda: use_con(lambda: ssm.constraint_ode_ts1(res))
        S["residual_given_ode"] = lambda: use_con(lambda: ssm.constraint_residual(_vf()))
    elif entry == "loss_terminal":
        def solve():
            prior = ssm.prior_wiener_integrated(tcs)
            solver = probdiffeq.solver(strategy=probdiffeq.strategy_filter(), constraint=ssm.constraint_ode_ts0(_vf()))
            sol = ivpsolve.solve_fixed_grid(solver=solver)(prior, grid=jnp.asarray([0.0, 0.1, 0.2]))
            import jax
            return jax.tree.map(lambda s: s[-1], sol.u)

        marg = solve()
        data = jnp.asarray([0.4, 0.2, -0.6])
        std_ok = jnp.asarray(0.1) if ssm_name == "isotropic" else 0.1 * jnp.ones((D,))
        loss = probdiffeq.loss_lml_terminal_values()
        base = lambda: np.asarray(loss(data, marginals=marg, std=std_ok))
        if ssm_name == "isotropic":
            bad = {"vector_d": jnp.ones((D,)), "length1_broadcast_trap": jnp.ones((1,)), "list_container": [0.1], "rank2": jnp.ones((1, 1))}
        else:
            bad = {"scalar": jnp.asarray(0.1), "length-1": jnp.ones((D - 1,)), "length+1": jnp.ones((D + 1,)), "length1_broadcast_trap": jnp.ones((1,)), "rank+1": jnp.ones((D, 1)),
                   "list_container": [0.1, 0.1, 0.1]}
        for k, v in bad.items():
            S[k] = (lambda v=v: np.asarray(loss(data, marginals=marg, std=v)))
    elif entry == "loss_timeseries":
        def solve(strategy):
            prior = ssm.prior_wiener_integrated(tcs)
            solver = probdiffeq.solver(strategy=strategy, constraint=ssm.constraint_ode_ts0(_vf()))
            return ivpsolve.solve_fixed_grid(solver=solver)(prior, grid=jnp.asarray([0.0, 0.1, 0.2, 0.3]))

        sol = solve(probdiffeq.strategy_smoother_fixedinterval())
        sol_f = solve(probdiffeq.strategy_filter())
        T = 4
        data = jnp.ones((T, D)) * 0.3
        std_ok = 0.1 * jnp.ones((T,)) if ssm_name == "isotropic" else 0.1 * jnp.ones((T, D))
        loss = probdiffeq.loss_lml_timeseries()
        base = lambda: np.asarray(loss(data, posterior=sol.solution_full.posterior, std=std_ok))
        if ssm_name == "isotropic":
            bad = {"time_length-1": jnp.ones((T - 1,)), "time_length+1": jnp.ones((T + 1,)), "per_dimension_matrix": jnp.ones((T, D)), "scalar": jnp.asarray(0.1),
                   "length1_broadcast_trap": jnp.ones((1,)), "column": jnp.ones((T, 1))}
        else:
            bad = {"time_length-1": jnp.ones((T - 1, D)), "time_length+1": jnp.ones((T + 1, D)), "dim_length-1": jnp.ones((T, D - 1)), "per_time_only": jnp.ones((T,)),
                   "per_dimension_only": jnp.ones((D,)), "length1_broadcast_trap_time": jnp.ones((1, D)), "length1_broadcast_trap_dim": jnp.ones((T, 1)), "scalar": jnp.asarray(0.1)}
        for k, v in bad.items():
            S["std_" + k] = (lambda v=v: np.asarray(loss(data, posterior=sol.solution_full.posterior, std=v)))
        S["posterior_is_filter_solution"] = lambda: np.asarray(loss(data, posterior=sol_f.solution_full, std=std_ok))
        S["posterior_is_smoothing_solution_not_extracted"] = lambda: np.asarray(loss(data, posterior=sol.solution_full, std=std_ok))
        S["posterior_is_marginals"] = lambda: np.asarray(loss(data, posterior=sol.u, std=std_ok))
    elif entry == "error_residual_shape":
        def use(con_err):
            prior = ssm.prior_wiener_integrated(tcs)
            con = ssm.constraint_ode_ts0(_vf())
            solver = probdiffeq.solver(strategy=probdiffeq.strategy_filter(), constraint=con)
            err = probdiffeq.error_residual_std(constraint=con_err(con))
            sol = ivpsolve.solve_adaptive_terminal_values(solver=solver, error=err)(prior, t0=0.0, t1=0.2, atol=1e-2, rtol=1e-2, dt0=0.1)
            return np.asarray(sol.u.mean[0])

        base = lambda: use(lambda con: con)
        lifted = _vf().jet_lift_max(num_tcoeffs=N)

        def use_lifted():
            prior = ssm.prior_wiener_integrated(tcs)
            con = ssm.constraint_ode_ts0(lifted)
            solver = probdiffeq.solver(strategy=probdiffeq.strategy_filter(), constraint=con)
            err = probdiffeq.error_residual_std(constraint=con)
            sol = ivpsolve.solve_adaptive_terminal_values(solver=solver, error=err)(prior, t0=0.0, t1=0.2, atol=1e-2, rtol=1e-2, dt0=0.1)
            return np.asarray(sol.u.mean[0])

        S["jet_lifted_constraint_two_blocks_vs_state"] = use_lifted
    elif entry == "prior_exponential":
        ode2 = probdiffeq.ode_autonomous_order_arbitrary(lambda u, du: -u - du, num_tcoeffs_in_args=2)
        ode3 = probdiffeq.ode_autonomous_order_arbitrary(lambda u, du, ddu: -u - du - ddu, num_tcoeffs_in_args=3)
        base = lambda: _use_prior(ssm, ssm.prior_exponential(ode3, tcs))
        S["ode_order_2_for_3_coefficients"] = lambda: _use_prior(ssm, ssm.prior_exponential(ode2, tcs))
        S["ode_order_3_for_2_coefficients"] = lambda: np.asarray(ssm.prior_exponential(ode3, tcs[:2]).transition(dt=0.1, output_scale=jnp.asarray(1.0)).A)
        S["plain_function"] = lambda: _use_prior(ssm, ssm.prior_exponential(lambda u, du, ddu: -u, tcs))
        S["output_scale_length1_broadcast_trap"] = lambda: _use_prior(ssm, ssm.prior_exponential(ode3, tcs, output_scale=jnp.ones((1,))))
        S["matern_output_scale_length-1"] = lambda: _use_prior(ssm, ssm.prior_matern(1.0, tcs, output_scale=jnp.ones((D - 1,))))
        S["ou_is_exact_float"] = lambda: _use_prior(ssm, ssm.prior_ornstein_uhlenbeck_integrated(lambda x: -x, tcs, is_exact=1.0))
    elif entry == "jetexpand":
        u0 = [tcs[0]]
        base = lambda: np.asarray(probdiffeq.jetexpand_ode_unroll(num=2)(_vf(), u0, t=0.0)[0][-1])
        plain = lambda u, *, t: -u
        for name, alg in (("padded_scan", probdiffeq.jetexpand_ode_padded_scan(num=2)), ("unroll", probdiffeq.jetexpand_ode_unroll(num=2)), ("via_jvp", probdiffeq.jetexpand_ode_via_jvp(num=2)),
                          ("doubling", probdiffeq.jetexpand_ode_doubling_unroll(num_doublings=1))):
            S[f"{name}_plain_function"] = (lambda alg=alg: np.asarray(alg(plain, u0, t=0.0)[0][-1]))
            S[f"{name}_jet_lifted_ode"] = (lambda alg=alg: np.asarray(alg(_vf().jet_lift(lift_by=1), [tcs[0], tcs[1]], t=0.0)[0][-1]))
    elif entry == "jet_lift":
        base = lambda: np.asarray(_vf().jet_lift(lift_by=1).vector_field(jet_coords=tcs[:2], t=0.0)[-1])
        S["lift_by_-1"] = lambda: np.asarray(_vf().jet_lift(lift_by=-1).vector_field(jet_coords=tcs[:2], t=0.0)[-1])
        S["lift_by_max+1"] = lambda: np.asarray(_vf().jet_lift(lift_by=2).vector_field(jet_coords=tcs[:2], t=0.0)[-1])
        S["lift_by_float"] = lambda: np.asarray(_vf().jet_lift(lift_by=1.0).vector_field(jet_coords=tcs[:2], t=0.0)[-1])
        res = probdiffeq.residual_velocity(lambda u, du, *, t: du + u)
        S["residual_lift_by_-1"] = lambda: np.asarray(res.jet_lift(lift_by=-1).residual_function(jet_coords=tcs, t=0.0)[-1])
        S["residual_lift_by_max+1"] = lambda: np.asarray(res.jet_lift(lift_by=2).residual_function(jet_coords=tcs, t=0.0)[-1])
        S["residual_lift_by_float"] = lambda: np.asarray(res.jet_lift(lift_by=1.0).residual_function(jet_coords=tcs, t=0.0)[-1])
        S["double_lift"] = lambda: np.asarray(_vf().jet_lift(lift_by=1).jet_lift(lift_by=1).vector_field(jet_coords=tcs, t=0.0)[-1])
    elif entry == "ensembles":
        from probdiffeq._probdiffeq import ssm_impl_matfree

        base = lambda: np.asarray(ssm_impl_matfree.blockdiag_cholesky_from_ensembles(jnp.asarray(np.random.default_rng(0).normal(size=(5, N, D))), bias=False))
        S["ensembles_S_less_than_n"] = lambda: np.asarray(ssm_impl_matfree.blockdiag_cholesky_from_ensembles(jnp.ones((N - 1, N, D)), bias=False))
        S["ensembles_single_member"] = lambda: np.asarray(ssm_impl_matfree.blockdiag_cholesky_from_ensembles(jnp.ones((1, N, D)), bias=False))
    elif entry == "jacobian_handlers":
        h = probdiffeq.jacobian_monte_carlo_rev()
        x = jnp.ones((N, D))
        base = lambda: np.asarray(h.calculate_trace_along_d(lambda s: s[:1], x, h.init_jacobian_handler())[1])
        S["x_rank1"] = lambda: np.asarray(h.calculate_trace_along_d(lambda s: s, jnp.ones((D,)), h.init_jacobian_handler())[1])
        S["output_list"] = lambda: np.asarray(h.calculate_trace_along_d(lambda s: [s], x, h.init_jacobian_handler())[1])
        S["output_mismatched_d"] = lambda: np.asarray(h.calculate_diagonal_along_d(lambda s: s[:, :2], x, h.init_jacobian_handler())[1])
        S["output_rank1"] = lambda: np.asarray(h.calculate_diagonal_along_d(lambda s: s[0], x, h.init_jacobian_handler())[1])
    else:
        raise ValueError(entry)
    return base, S


def _run(case):
    if case["entry"] == "warnings":
        return _run_warnings(case)
    base, scen = _scenarios(case["entry"], case["ssm"])
    fails = []
    n = 0
    # the uncorrupted call must succeed and produce finite numbers (otherwise a rejection below would prove nothing)
    try:
        out = base()
        if not np.all(np.isfinite(np.asarray(out, dtype=float))):
            fails.append(core.fail("base_call_not_finite", str(out)))
    except Exception as e:  # noqa: BLE001
        raise core.HarnessError(f"valid base call of {case['id']} raised {type(e).__name__}: {e}") from e
    outcomes = {}
    for name, call in scen.items():
        n += 1
        try:
            with warnings.catch_warnings():
                warnings.simplefilter("ignore")
                out = call()
            fails.append(core.fail("silent:" + name, f"{case['entry']}/{case['ssm']} corruption '{name}' produced {np.asarray(out).reshape(-1)[:4]} instead of raising"))
            outcomes[name] = "SILENT"
        except Exception as e:  # noqa: BLE001
            outcomes[name] = type(e).__name__
    return core.result(case, fails, transitions=n + 1, traces=n, states=n, outcome="ok" if not fails else "silent", nontrivial=True,
                       sample=dict(entry=case["entry"], ssm=case["ssm"], rejections=outcomes))


def _run_warnings(case):
    import jax.numpy as jnp
    from probdiffeq import ivpsolve, probdiffeq
    from probdiffeq.util import test_util

    ssm = probdiffeq.state_space_model_dense()
    con = ssm.constraint_ode_ts0(_vf())
    fails = []
    n = 0
    seen = {}

    def expect(name, fn, must_contain):
        nonlocal n
        n += 1
        with warnings.catch_warnings(record=True) as w:
            warnings.simplefilter("always")
            fn()
        msgs = [str(x.message) for x in w]
        seen[name] = msgs[:1]
        if not any(all(tok.lower() in m.lower() for tok in must_contain) for m in msgs):
            fails.append(core.fail("missing_or_unhelpful_warning:" + name, f"warnings: {msgs}"))

    def expect_none(name, fn):
        nonlocal n
        n += 1
        with warnings.catch_warnings(record=True) as w:
            warnings.simplefilter("always")
            fn()
        if any("should not be used" in str(x.message) for x in w):
            fails.append(core.fail("spurious_warning:" + name, str([str(x.message) for x in w])))

    fp = probdiffeq.solver(strategy=probdiffeq.strategy_smoother_fixedpoint(), constraint=con)
    fi = probdiffeq.solver(strategy=probdiffeq.strategy_smoother_fixedinterval(), constraint=con)
    fl = probdiffeq.solver(strategy=probdiffeq.strategy_filter(), constraint=con)
    err = probdiffeq.error_residual_std(constraint=con)
    expect("fixed_grid_with_fixedpoint", lambda: ivpsolve.solve_fixed_grid(solver=fp), ["fixed-interval"])
    expect("save_at_with_fixedinterval", lambda: ivpsolve.solve_adaptive_save_at(solver=fi, error=err), ["fixed-point"])
    expect("save_every_step_with_fixedpoint", lambda: test_util.solve_adaptive_save_every_step(fp, err), ["fixed-interval"])
    expect_none("fixed_grid_with_filter", lambda: ivpsolve.solve_fixed_grid(solver=fl))
    expect_none("fixed_grid_with_fixedinterval", lambda: ivpsolve.solve_fixed_grid(solver=fi))
    expect_none("save_at_with_fixedpoint", lambda: ivpsolve.solve_adaptive_save_at(solver=fp, error=err))
    expect_none("terminal_values_with_fixedinterval", lambda: ivpsolve.solve_adaptive_terminal_values(solver=fi, error=err))
    return core.result(case, fails, transitions=n, traces=n, states=n, outcome="ok" if not fails else "warn", sample=dict(warnings=seen))
