"""C15 - results are invariant under pytree structure, permutation, jit and vmap (metamorphic, level 'exploration').

tree     pytree catalogue (every nesting of dict / tuple / namedtuple up to depth 2 over 1-3 leaves of rank 0..3):
         tree-structured solve == flattened solve (values, step counts, scales), output mean/std carry the caller's
         structure with leading axis len(save_at); fixed-grid and adaptive routines, filter and smoothers, three
         factorisations.
perm     all permutations of <= 4 state components: permuted input => permuted output.
jit      jit == eager to 1e-12.
vmap     vmap == loop over batches formed as all ordered pairs and triples from 4 problems whose step counts span
         1x..10x; no NaN in any batch member.
"""

import collections
import itertools

import numpy as np

from mc import alphabets, core

LEVEL = "exploration"
ENGINE = "E2 xprod (metamorphic)"
TECHNIQUE = "exhaustive enumeration of a pytree catalogue, all permutations of <= 4 components, jit/eager, and all ordered batch pairs/triples, with metamorphic equalities between runs of the real solvers as oracle"
LEVEL_TEXT = "Every structure / permutation / batch of the listed catalogue is solved and compared with its flattened / unpermuted / unbatched counterpart."
LEVEL_NOTE = "Implementation-against-implementation; relative tolerance 1e-10 (bitwise equality is observed but not required). The catalogue is finite; other container types (custom pytrees) are not covered."
TIMEOUT_S = {"quick": 1800, "thorough": 7200}
P2 = collections.namedtuple("P2", ["x", "y"])
P3 = collections.namedtuple("P3", ["a", "b", "c"])


def catalogue(tier):
    """name -> (list of leaf shapes, packer(list of leaves) -> tree)"""
    cat = {}
    shapes1 = [(), (3,), (2, 2), (2, 1, 2)]
    for s in shapes1:
        cat[f"leaf{s}"] = ([s], lambda ls: ls[0])
        cat[f"dict1{s}"] = ([s], lambda ls: {"a": ls[0]})
        cat[f"tuple1{s}"] = ([s], lambda ls: (ls[0],))
    two = [((), (2,)), ((2,), (2,)), ((1, 2), ())]
    for sh in two:
        cat[f"dict2{sh}"] = (list(sh), lambda ls: {"a": ls[0], "b": ls[1]})
        cat[f"tuple2{sh}"] = (list(sh), lambda ls: (ls[0], ls[1]))
        cat[f"named2{sh}"] = (list(sh), lambda ls: P2(x=ls[0], y=ls[1]))
        cat[f"list2{sh}"] = (list(sh), lambda ls: [ls[0], ls[1]])
    three = [((), (2,), (1,)), ((2,), (), ())]
    for sh in three:
        cat[f"dict_in_tuple{sh}"] = (list(sh), lambda ls: ({"p": ls[0], "q": ls[1]}, ls[2]))
        cat[f"tuple_in_dict{sh}"] = (list(sh), lambda ls: {"k": (ls[0], ls[1]), "m": ls[2]})
        cat[f"named3{sh}"] = (list(sh), lambda ls: P3(a=ls[0], b=ls[1], c=ls[2]))
        cat[f"named_in_dict{sh}"] = (list(sh), lambda ls: {"n": P2(x=ls[0], y=ls[1]), "z": ls[2]})
        cat[f"dict_in_dict{sh}"] = (list(sh), lambda ls: {"o": {"i": ls[0], "j": ls[1]}, "r": ls[2]})
    if tier == "quick":
        keys = sorted(cat)
        cat = {k: cat[k] for k in keys[::2]}
    return cat


def enumerate_cases(tier, seed):
    quick = tier == "quick"
    cases = []
    for ssm in ("dense", "isotropic", "blockdiag"):
        for routine, strat in (("fixed", "filter"), ("fixed", "fixedinterval"), ("adaptive", "filter"), ("adaptive", "fixedpoint")):
            cases.append(dict(id=f"tree/{ssm}/{routine}/{strat}", group=f"tree/{ssm}", part="tree", ssm=ssm, routine=routine, strategy=strat, tier=tier, seed=seed, weight=200))
            cases.append(dict(id=f"perm/{ssm}/{routine}/{strat}", group=f"perm/{ssm}", part="perm", ssm=ssm, routine=routine, strategy=strat, tier=tier, seed=seed, weight=120))
        for strat in ("filter", "fixedpoint"):
            cases.append(dict(id=f"vmap/{ssm}/{strat}", group=f"vmap/{ssm}", part="vmap", ssm=ssm, strategy=strat, tier=tier, seed=seed, weight=150))
        cases.append(dict(id=f"jit/{ssm}", group=f"jit/{ssm}", part="jit", ssm=ssm, tier=tier, seed=seed, weight=60))
    return cases


def describe(tier, seed):
    return dict(
        rule="case = (part, factorisation, routine, strategy); tree: every structure of the catalogue; perm: all 24 permutations of 4 components (+ all 6 of 3); vmap: all ordered pairs and triples of 4 problems; "
             "non-trivial = structure with >= 2 leaves / non-identity permutation / batch with differing step counts",
        exhaustive=True,
        alphabets=dict(structures=sorted(catalogue(tier)), permutations="S_3 and S_4", batch_members=["lambda=0.25", "lambda=2", "lambda=8", "lambda=25"], calibration=["mle"], linearisation=["ts1 (dense), ts0 (others)"]),
        bounds=dict(tolerance=1e-10),
        assumptions=["catalogue of standard containers only"],
    )


def run_cases(cases):
    from mc import jaxenv

    jaxenv.setup()
    for case in cases:
        fn = {"tree": _run_tree, "perm": _run_perm, "vmap": _run_vmap, "jit": _run_jit}[case["part"]]
        yield core.guarded(case, fn)


def _field(dtot):
    """A coupled nonlinear, time-dependent polynomial field on R^dtot as a function of the flat vector."""
    import jax.numpy as jnp

    W = np.sin(1.0 + 1.3 * np.arange(dtot * dtot)).reshape(dtot, dtot) * 0.5 - 0.75 * np.eye(dtot)
    Wj = jnp.asarray(W)

    def f(v, t):
        return Wj @ v + 0.25 * v * jnp.roll(v, 1) + 0.5 * t * jnp.cos(jnp.arange(dtot))

    return f


def _solve(ssm_name, routine, strategy, vf, u0, jit=True, lin=None, save_at=None, dt0=0.1):
    import jax
    import jax.numpy as jnp
    from probdiffeq import ivpsolve, probdiffeq

    from mc import impl

    lin = lin or ("ts1" if ssm_name == "dense" else "ts0")

    def run(u0_):
        ssm = impl.SSM[ssm_name]()
        tc, _ = probdiffeq.jetexpand_ode_padded_scan(num=3)(vf, [u0_], t=0.0)
        prior = ssm.prior_wiener_integrated(tc)
        con = ssm.constraint_ode_ts1(vf) if lin == "ts1" else ssm.constraint_ode_ts0(vf)
        solver = probdiffeq.solver_mle(strategy=impl.STRATEGY[strategy](), constraint=con)
        if routine == "fixed":
            sol = ivpsolve.solve_fixed_grid(solver=solver)(prior, grid=jnp.asarray([0.0, 0.125, 0.375, 0.5, 1.0]))
        else:
            err = probdiffeq.error_residual_std(constraint=con)
            sa = jnp.asarray([0.0, 0.3, 0.55, 1.0]) if save_at is None else save_at
            sol = ivpsolve.solve_adaptive_save_at(solver=solver, error=err, warn=False)(prior, save_at=sa, atol=1e-4, rtol=1e-4, dt0=dt0)
        return dict(mean=sol.u.mean, std=sol.u.std, n=sol.num_steps, scale=sol.output_scale, t=sol.t)

    return (jax.jit(run) if jit else run)(u0)


def _flat(tree_list):
    """list over coefficients of trees with leading time axis -> array (T, n_coeff, dtot)"""
    import jax

    out = []
    for coeff in tree_list:
        leaves = jax.tree.leaves(coeff)
        T = np.asarray(leaves[0]).shape[0]
        out.append(np.concatenate([np.asarray(l).reshape(T, -1) for l in leaves], axis=1))
    return np.stack(out, axis=1)


def _close(a, b, tol=1e-10):
    a, b = np.asarray(a, dtype=float), np.asarray(b, dtype=float)
    if a.shape != b.shape or not (np.all(np.isfinite(a)) and np.all(np.isfinite(b))):
        return False
    return bool(np.all(np.abs(a - b) <= tol * (np.abs(b) + 1e-3 * np.max(np.abs(b)) + 1e-300)))


def _run_tree(case):
    import jax
    import jax.numpy as jnp
    from probdiffeq import probdiffeq

    fails = []
    n = 0
    sample = None
    for name, (shapes, pack) in sorted(catalogue(case["tier"]).items()):
        sizes = [int(np.prod(s)) if len(s) else 1 for s in shapes]
        dtot = sum(sizes)
        f = _field(dtot)
        u0_flat = jnp.asarray(0.5 + 0.25 * np.cos(np.arange(dtot)))
        offs = np.cumsum([0] + sizes)

        def to_tree(v, shapes=shapes, offs=offs, pack=pack):
            return pack([jnp.reshape(v[offs[i]:offs[i + 1]], shapes[i]) for i in range(len(shapes))])

        def to_flat(tree):
            return jnp.concatenate([jnp.reshape(l, (-1,)) for l in jax.tree.leaves(tree)])

        # leaf order of the packed tree may differ from the packing order (dict keys are sorted): build the flat problem in *leaf order*
        probe = to_tree(jnp.arange(dtot, dtype=float))
        order = np.asarray(to_flat(probe)).astype(int)
        inv = np.argsort(order)

        def f_leaforder(w, t, order=order, inv=inv, f=f):
            return f(w[inv], t)[order]

        vf_flat = probdiffeq.ode(lambda w, *, t: f_leaforder(w, t), jacobian=probdiffeq.jacobian_materialize())
        vf_tree = probdiffeq.ode(lambda tr, *, t, to_tree=to_tree, to_flat=to_flat, inv=inv, order=order, f=f: to_tree(f(to_flat(tr)[inv], t)), jacobian=probdiffeq.jacobian_materialize())
        u0_tree = to_tree(u0_flat)
        a = _solve(case["ssm"], case["routine"], case["strategy"], vf_tree, u0_tree)
        b = _solve(case["ssm"], case["routine"], case["strategy"], vf_flat, u0_flat[order])
        n += 1
        tag = f"structure={name}"
        s_in = jax.tree.structure(u0_tree)
        T = len(np.asarray(a["t"]))
        for what in ("mean", "std"):
            for k, coeff in enumerate(a[what]):
                if jax.tree.structure(coeff) != s_in and not (case["ssm"] == "isotropic" and what == "std"):
                    fails.append(core.fail("output_structure", f"{tag} {what}[{k}]: {jax.tree.structure(coeff)} vs input {s_in}"))
                lead = {np.asarray(l).shape[0] for l in jax.tree.leaves(coeff)}
                if lead != {T}:
                    fails.append(core.fail("leading_time_axis", f"{tag} {what}[{k}]: leading axes {lead}, expected {T}"))
                if what == "mean" or case["ssm"] != "isotropic":
                    got_shapes = [np.asarray(l).shape[1:] for l in jax.tree.leaves(coeff)]
                    want_shapes = [np.shape(l) for l in jax.tree.leaves(u0_tree)]
                    if got_shapes != want_shapes:
                        fails.append(core.fail("output_leaf_shapes", f"{tag} {what}[{k}]: {got_shapes} vs {want_shapes}"))
        if not np.array_equal(np.asarray(a["n"]), np.asarray(b["n"])):
            fails.append(core.fail("tree_vs_flat_step_counts", f"{tag}: {np.asarray(a['n'])} vs {np.asarray(b['n'])}"))
        elif not _close(_flat(a["mean"]), _flat(b["mean"])):
            fails.append(core.fail("tree_vs_flat_mean", f"{tag}: max diff {np.max(np.abs(_flat(a['mean']) - _flat(b['mean']))):.2e}"))
        elif case["ssm"] != "isotropic" and not _close(_flat(a["std"]), _flat(b["std"]), 1e-8):
            fails.append(core.fail("tree_vs_flat_std", f"{tag}"))
        elif not _close(a["scale"], b["scale"], 1e-9):
            fails.append(core.fail("tree_vs_flat_scale", f"{tag}: {np.asarray(a['scale'])[-1]} vs {np.asarray(b['scale'])[-1]}"))
        if sample is None and len(shapes) > 1:
            sample = dict(structure=name, leaf_shapes=[list(s) for s in shapes], num_steps=[int(x) for x in np.asarray(a["n"])])
        if len(fails) > 8:
            break
    seen = {}
    for fl in fails:
        seen.setdefault(fl["kind"], fl)
    return core.result(case, list(seen.values()), transitions=n * 2, traces=n, states=n, outcome="ok" if not fails else "|".join(sorted(seen)), sample=sample)


def _run_perm(case):
    import jax.numpy as jnp
    from probdiffeq import probdiffeq

    fails = []
    n = 0
    for d in (3, 4):
        f = _field(d)
        u0 = jnp.asarray(0.5 + 0.25 * np.cos(np.arange(d)))
        vf = probdiffeq.ode(lambda w, *, t: f(w, t), jacobian=probdiffeq.jacobian_materialize())
        base = _solve(case["ssm"], case["routine"], case["strategy"], vf, u0)
        bm = _flat(base["mean"])
        for perm in itertools.permutations(range(d)):
            p = np.asarray(perm)
            inv = np.argsort(p)
            vfp = probdiffeq.ode(lambda w, *, t, p=p, inv=inv: f(w[inv], t)[p], jacobian=probdiffeq.jacobian_materialize())
            out = _solve(case["ssm"], case["routine"], case["strategy"], vfp, u0[p])
            n += 1
            if not np.array_equal(np.asarray(out["n"]), np.asarray(base["n"])):
                fails.append(core.fail("permutation_changes_step_counts", f"perm={perm}: {np.asarray(out['n'])} vs {np.asarray(base['n'])}"))
                continue
            om = _flat(out["mean"])
            if not _close(om, bm[:, :, p], 1e-9):
                fails.append(core.fail("permutation_not_equivariant_mean", f"perm={perm}: max diff {np.max(np.abs(om - bm[:, :, p])):.2e}"))
            if case["ssm"] != "isotropic":
                if not _close(_flat(out["std"]), _flat(base["std"])[:, :, p], 1e-7):
                    fails.append(core.fail("permutation_not_equivariant_std", f"perm={perm}"))
            if len(fails) > 6:
                break
    seen = {}
    for fl in fails:
        seen.setdefault(fl["kind"], fl)
    return core.result(case, list(seen.values()), transitions=n, traces=n, states=n, outcome="ok" if not fails else "|".join(sorted(seen)), sample=dict(permutations=n))


def _run_vmap(case):
    import jax
    import jax.numpy as jnp
    from probdiffeq import ivpsolve, probdiffeq

    from mc import impl

    lams = [0.25, 2.0, 8.0, 25.0]

    def solve(lam, scale):
        vf = probdiffeq.ode(lambda u, *, t: -lam * u * (1.0 + 0.5 * jnp.sin(3.0 * lam * t)) + jnp.asarray([1.0, 0.5]), jacobian=probdiffeq.jacobian_materialize())
        ssm = impl.SSM[case["ssm"]]()
        u0 = scale * jnp.asarray([1.0, -0.5])
        tc, _ = probdiffeq.jetexpand_ode_padded_scan(num=3)(vf, [u0], t=0.0)
        prior = ssm.prior_wiener_integrated(tc)
        con = ssm.constraint_ode_ts1(vf) if case["ssm"] == "dense" else ssm.constraint_ode_ts0(vf)
        solver = probdiffeq.solver_mle(strategy=impl.STRATEGY[case["strategy"]](), constraint=con)
        err = probdiffeq.error_residual_std(constraint=con)
        sol = ivpsolve.solve_adaptive_save_at(solver=solver, error=err, warn=False)(prior, save_at=jnp.asarray([0.0, 0.4, 1.0]), atol=1e-5, rtol=1e-5, dt0=0.05)
        return dict(mean=sol.u.mean[0], std=jax.tree.leaves(sol.u.std)[0], n=sol.num_steps, scale=sol.output_scale)

    single = jax.jit(solve)
    singles = {lam: {k: np.asarray(v) for k, v in single(lam, 1.0).items()} for lam in lams}
    counts = {lam: int(singles[lam]["n"][-1]) for lam in lams}
    fails = []
    n = 0
    batched = jax.jit(jax.vmap(solve))
    for r in (2, 3):
        for combo in itertools.permutations(lams, r):
            out = {k: np.asarray(v) for k, v in batched(jnp.asarray(combo), jnp.ones(r)).items()}
            n += 1
            for i, lam in enumerate(combo):
                tag = f"batch={combo} member {i}"
                if not np.all(np.isfinite(out["mean"][i])) or not np.all(np.isfinite(out["std"][i])):
                    fails.append(core.fail("nan_in_batch_member", tag))
                    continue
                if not np.array_equal(out["n"][i], singles[lam]["n"]):
                    fails.append(core.fail("vmap_changes_step_counts", f"{tag}: {out['n'][i]} vs {singles[lam]['n']}"))
                    continue
                if not (_close(out["mean"][i], singles[lam]["mean"]) and _close(out["std"][i], singles[lam]["std"], 1e-8) and _close(out["scale"][i], singles[lam]["scale"], 1e-9)):
                    fails.append(core.fail("vmap_differs_from_loop", f"{tag}: max mean diff {np.max(np.abs(out['mean'][i] - singles[lam]['mean'])):.2e}"))
            if len(fails) > 6:
                break
    spread = max(counts.values()) / max(min(counts.values()), 1)
    if spread < 4:
        raise core.HarnessError(f"batch members do not differ enough in step counts: {counts}")
    seen = {}
    for fl in fails:
        seen.setdefault(fl["kind"], fl)
    return core.result(case, list(seen.values()), transitions=n, traces=n, states=n, outcome="ok" if not fails else "|".join(sorted(seen)), sample=dict(step_counts=counts, batches=n))


def _run_jit(case):
    import jax.numpy as jnp
    from probdiffeq import probdiffeq

    fails = []
    n = 0
    f = _field(3)
    u0 = jnp.asarray([0.5, 0.25, -0.75])
    vf = probdiffeq.ode(lambda w, *, t: f(w, t), jacobian=probdiffeq.jacobian_materialize())
    for routine, strat in (("fixed", "filter"), ("fixed", "fixedinterval"), ("adaptive", "filter"), ("adaptive", "fixedpoint")):
        a = _solve(case["ssm"], routine, strat, vf, u0, jit=True)
        b = _solve(case["ssm"], routine, strat, vf, u0, jit=False)
        n += 1
        if not np.array_equal(np.asarray(a["n"]), np.asarray(b["n"])):
            fails.append(core.fail("jit_changes_step_counts", f"{routine}/{strat}"))
        elif not (_close(_flat(a["mean"]), _flat(b["mean"]), 1e-7) and _close(a["scale"], b["scale"], 1e-7)):
            fails.append(core.fail("jit_differs_from_eager", f"{routine}/{strat}: {np.max(np.abs(_flat(a['mean']) - _flat(b['mean']))):.2e}"))
    seen = {}
    for fl in fails:
        seen.setdefault(fl["kind"], fl)
    return core.result(case, list(seen.values()), transitions=n, traces=n, states=n, outcome="ok" if not fails else "|".join(sorted(seen)), sample=dict(routines=4))
