"""C18 - initial step-size proposals are positive, finite and follow the heuristics.

Full lattice: initial-value magnitudes {0, 1e-300, 1e-8, 1, 1e8, 1e300} (uniform and mixed per component) x affine
vector-field family (f(u0) zero / non-zero / tiny / huge; with and without time dependence) x atol, rtol in
{1e-12, 1e-6, 1} x contraction rates 1..12 x state structures x t0 in {0, 3}.
Oracle: finite and > 0 always; dt0_adaptive equals Hairer-Norsett-Wanner II.4 steps a-f computed independently
(accepted with the RMS or the Euclidean scaled norm, as long as it is the same norm for d0, d1, d2); an adaptive
solve started with the proposal finishes with finite output.
"""

import itertools
import math

import numpy as np

from mc import core

LEVEL = "model_checking"
ENGINE = "E2 xprod"
TECHNIQUE = "exhaustive lattice enumeration (magnitudes x vector-field family x tolerances x rates x structures) on dt0 / dt0_adaptive against an independent transcription of Hairer-Norsett-Wanner II.4, plus a solvability check"
LEVEL_TEXT = "Every lattice point is evaluated; positivity/finiteness is asserted everywhere, agreement with the classical heuristic wherever the heuristic's quantities are representable."
LEVEL_NOTE = "Trusted: the transcription of HNW II.4 (from the book); both norm conventions accepted. Solvability is checked on a sub-lattice (moderate magnitudes) with the dense TS0 filter."
TIMEOUT_S = {"quick": 900, "thorough": 3600}
MAGS = [0.0, 1e-300, 1e-8, 1.0, 1e8, 1e300]
TOLS = [1e-12, 1e-6, 1.0]


def _fields():
    """name -> (a, b, c): f(u, t) = a + b * u + c * t (componentwise)"""
    return {
        "zero": (0.0, 0.0, 0.0),
        "const": (1.0, 0.0, 0.0),
        "tiny_const": (1e-20, 0.0, 0.0),
        "huge_const": (1e20, 0.0, 0.0),
        "decay": (0.0, -1.0, 0.0),
        "stiff_decay": (0.0, -1e6, 0.0),
        "affine_t": (0.5, -2.0, 1.0),
        "only_t": (0.0, 0.0, 1.0),
    }


def enumerate_cases(tier, seed):
    cases = []
    for fname in _fields():
        for struct in ("vector", "scalar", "dict"):
            cases.append(dict(id=f"{fname}/{struct}", group=fname, field=fname, struct=struct, tier=tier, weight=30))
    for fname in ("decay", "affine_t", "const", "zero", "only_t"):
        cases.append(dict(id=f"solve/{fname}", group="solve", field=fname, struct="vector", tier=tier, part="solve", weight=60))
    return cases


def describe(tier, seed):
    return dict(
        rule="case = (vector field, state structure); inside: every magnitude pattern (uniform + mixed) x t0 x atol x rtol x contraction rate; non-trivial = all",
        exhaustive=True,
        alphabets=dict(magnitudes=MAGS, mixed_patterns=["(0, 1, 1e-8)", "(1e8, 1e-8, 1)", "(1e300, 0, 1)"], fields=sorted(_fields()), atol=TOLS, rtol=TOLS,
                       rates=list(range(1, 13)) if tier != "quick" else [1, 2, 4, 8, 12], t0=[0.0, 3.0], structures=["vector", "scalar", "dict"]),
        bounds=dict(tolerance=1e-9),
        assumptions=["HNW II.4 reference values are only asserted where d0, d1, d2 are finite in float64 (the positivity/finiteness claim is asserted everywhere)"],
    )


def run_cases(cases):
    from mc import jaxenv

    jaxenv.setup()
    for case in cases:
        yield core.guarded(case, _run_solve if case.get("part") == "solve" else _run)


def _hnw(f, y0, t0, rate, rtol, atol, norm):
    """Hairer, Norsett, Wanner: Solving ODEs I, Sec. II.4 (starting step size), steps a-f."""
    n = len(y0)
    sc = [atol + abs(v) * rtol for v in y0]

    def nrm(v):
        s = math.fsum((x / s_) ** 2 for x, s_ in zip(v, sc))
        return math.sqrt(s / n) if norm == "rms" else math.sqrt(s)

    f0 = f(y0, t0)
    d0, d1 = nrm(y0), nrm(f0)
    h0 = 1e-6 if (d0 < 1e-5 or d1 < 1e-5) else 0.01 * d0 / d1
    y1 = [a + h0 * b for a, b in zip(y0, f0)]
    f1 = f(y1, t0 + h0)
    d2 = nrm([a - b for a, b in zip(f1, f0)]) / h0
    if max(d1, d2) <= 1e-15:
        h1 = max(1e-6, h0 * 1e-3)
    else:
        h1 = (0.01 / max(d1, d2)) ** (1.0 / (rate + 1.0))
    return min(100 * h0, h1)


def _patterns(struct):
    if struct == "scalar":
        return [[m] for m in MAGS]
    pats = [[m, m, m] for m in MAGS] + [[0.0, 1.0, 1e-8], [1e8, 1e-8, 1.0], [1e300, 0.0, 1.0]]
    return pats


def _pack(struct, v):
    import jax.numpy as jnp

    if struct == "vector":
        return jnp.asarray(v)
    if struct == "scalar":
        return jnp.asarray(v[0])
    return {"a": jnp.asarray(v[:2]), "b": jnp.asarray(v[2])}


def _run(case):
    import jax
    import jax.numpy as jnp
    from probdiffeq import ivpsolve, probdiffeq

    a, b, c = _fields()[case["field"]]
    struct, tier = case["struct"], case["tier"]
    vf = probdiffeq.ode(lambda u, *, t: jax.tree.map(lambda x: a + b * x + c * t, u))
    rates = [1, 2, 4, 8, 12] if tier == "quick" else list(range(1, 13))
    fails = []
    worst = 0.0
    n = 0
    sample = None

    def fpy(y, t):
        return [a + b * v + c * t for v in y]

    for pat in _patterns(struct):
        u0 = _pack(struct, pat)
        for t0 in (0.0, 3.0):
            n += 1
            h = float(ivpsolve.dt0(vf, (u0,), t=t0))
            tag = f"u0={pat} t0={t0}"
            if not (math.isfinite(h) and h > 0):
                # the overflow of the plain Euclidean norm at |u0| = 1e300 is its own failure kind (known finding F7b)
                kind = "dt0_not_positive_finite@|u0|=1e300" if (1e300 in pat and not math.isfinite(h)) else "dt0_not_positive_finite"
                fails.append(core.fail(kind, f"{tag}: dt0 = {h}"))
            for atol, rtol, rate in itertools.product(TOLS, TOLS, rates):
                n += 1
                h = float(ivpsolve.dt0_adaptive(vf, (u0,), t0, error_contraction_rate=rate, rtol=rtol, atol=atol))
                tag2 = f"{tag} atol={atol} rtol={rtol} rate={rate}"
                if not (math.isfinite(h) and h > 0):
                    fails.append(core.fail("dt0_adaptive_not_positive_finite", f"{tag2}: {h}"))
                    continue
                try:
                    wants = [_hnw(fpy, pat, t0, rate, rtol, atol, nm) for nm in ("rms", "euclid")]
                except (OverflowError, ZeroDivisionError):
                    continue
                if not all(math.isfinite(w) and w > 0 for w in wants):
                    continue
                dev = min(abs(h - w) / w for w in wants)
                worst = max(worst, dev / 1e-9)
                if not dev <= 1e-9:
                    fails.append(core.fail("dt0_adaptive_differs_from_HNW", f"{tag2}: got {h!r}, HNW II.4 gives {wants[0]!r} (rms) / {wants[1]!r} (euclidean)"))
                if sample is None:
                    sample = dict(u0=pat, t0=t0, atol=atol, rtol=rtol, rate=rate, dt0_adaptive=h, hnw=wants)
    seen = {}
    for f in fails:
        seen.setdefault(f["kind"], f)
    return core.result(case, list(seen.values()), transitions=n, traces=n, states=n, outcome="ok" if not fails else "|".join(sorted(seen)), dev=worst, sample=sample)


def _run_solve(case):
    """A proposal returned by either helper lets an adaptive solve start and finish (finite output)."""
    import jax
    import jax.numpy as jnp
    from probdiffeq import ivpsolve, probdiffeq

    a, b, c = _fields()[case["field"]]
    vf = probdiffeq.ode(lambda u, *, t: a + b * u + c * t)
    fails = []
    n = 0
    sample = None
    for pat in ([0.0, 0.0, 0.0], [1.0, 1.0, 1.0], [0.0, 1.0, 1e-8], [1e-8, 1e-8, 1e-8], [1e8, 1e-8, 1.0]):
        u0 = jnp.asarray(pat)
        for helper in ("dt0", "dt0_adaptive"):
            for tol in (1e-3, 1e-6):
                n += 1
                if helper == "dt0":
                    h = ivpsolve.dt0(vf, (u0,), t=0.0)
                else:
                    h = ivpsolve.dt0_adaptive(vf, (u0,), 0.0, error_contraction_rate=3, rtol=tol, atol=tol)
                tag = f"u0={pat} helper={helper} tol={tol} dt0={float(h)}"
                if not (math.isfinite(float(h)) and float(h) > 0):
                    fails.append(core.fail("proposal_not_positive_finite", tag))
                    continue
                tc, _ = probdiffeq.jetexpand_ode_padded_scan(num=2)(vf, [u0], t=0.0)
                ssm = probdiffeq.state_space_model_dense()
                prior = ssm.prior_wiener_integrated(tc)
                con = ssm.constraint_ode_ts0(vf)
                solver = probdiffeq.solver_mle(strategy=probdiffeq.strategy_filter(), constraint=con)
                err = probdiffeq.error_residual_std(constraint=con)
                sol = jax.jit(ivpsolve.solve_adaptive_terminal_values(solver=solver, error=err))(prior, t0=0.0, t1=0.5, atol=tol, rtol=tol, dt0=h)
                m = np.asarray(sol.u.mean[0])
                if not (np.all(np.isfinite(m)) and abs(float(sol.t) - 0.5) < 1e-6):
                    fails.append(core.fail("solve_with_proposal_failed", f"{tag}: mean {m}, t {float(sol.t)}, steps {int(sol.num_steps)}"))
                if sample is None:
                    sample = dict(tag=tag, num_steps=int(sol.num_steps))
    seen = {}
    for f in fails:
        seen.setdefault(f["kind"], f)
    return core.result(case, list(seen.values()), transitions=n, traces=n, states=n, outcome="ok" if not fails else "|".join(sorted(seen)), sample=sample)
