"""C12 - marginal-likelihood losses equal the exact Gaussian log-density of the data.

Posteriors from fixed-interval smoothing on fixed grids and fixed-point smoothing through scripted adaptive runs
(2..6 output times quick, ..12 thorough), tcoeff_index 0..q, average on/off, data palettes (posterior mean + fixed
offsets), std in {1e-6, 1e-2, 1, 1e3} constant and varying per time and (dense, blockdiag) per dimension, exact and
inexact initial conditions, three factorisations. Oracle: log N(data; H m_joint, H S_joint H^T + diag(std^2)) from the
reference joint smoothing law (60-digit), divided by the number of time points when averaging; terminal loss:
log-density under the terminal marginal + noise.
"""

import itertools

import numpy as np

from mc import alphabets, core

LEVEL = "model_checking"
ENGINE = "E2 xprod"
TECHNIQUE = "exhaustive product enumeration (posteriors x observed coefficient index x averaging x noise-level lattice x data palettes x factorisations) on the real loss functions against the joint Gaussian log-density computed from an exact RTS reference"
LEVEL_TEXT = "Every combination is evaluated on the real losses and compared with the log-density of the data under the exact joint smoothing law plus noise."
LEVEL_NOTE = "Trusted: mpmath RTS + Cholesky log-density. Cases whose joint covariance (incl. noise) has condition number > 1e10 are excluded by an a-priori rule evaluated on the reference."
TIMEOUT_S = {"quick": 1500, "thorough": 7200}
EPS = 2.0 ** -20
STDS = [1e-6, 1e-2, 1.0, 1e3]


def enumerate_cases(tier, seed):
    quick = tier == "quick"
    cases = []
    for ssm, calib, lin, init in itertools.product(("dense", "isotropic", "blockdiag"), ("none", "mle") if quick else ("none", "mle", "dynamic"), ("ts0", "ts1"), ("exact", "inexact")):
        for src in ("fixedinterval_grid", "fixedpoint_adaptive"):
            for (d, m, q) in ([(2, 1, 2)] if quick else [(2, 1, 2), (1, 2, 3), (1, 1, 4)]):
                fn = sorted(alphabets.fields(d, m, tier))
                cases.append(dict(id=f"{src}/{ssm}/{calib}/{lin}/{init}/d{d}m{m}q{q}", group=f"{ssm}/{src}/{calib}", src=src, ssm=ssm, calib=calib, lin=lin, d=d, m=m, q=q, init=init,
                                  field=fn[seed % len(fn)], init_id=0, tier=tier, weight=100))
    return cases


def describe(tier, seed):
    return dict(
        rule="case = (posterior source, factorisation, calibration, linearisation, init kind, problem); inside: grids/histories x tcoeff_index x average x std pattern x data palette; non-trivial = all",
        exhaustive=True,
        alphabets=dict(std=STDS, std_patterns=["constant", "varying per time", "varying per dimension (dense/blockdiag)"], tcoeff_index="0..q", average=[True, False],
                       data=["posterior mean", "mean + offsets"]),
        bounds=dict(relative_tolerance=1e-8, cond_max=1e10),
        assumptions=["a-priori exclusion of joint covariances with condition number > 1e10 (evaluated on the reference)"],
    )


def run_cases(cases):
    from mc import jaxenv

    jaxenv.setup()
    for case in cases:
        yield core.guarded(case, _run)


def _run(case):
    import jax
    import jax.numpy as jnp
    import mpmath
    from probdiffeq import probdiffeq

    from mc import compare, impl, scripted, ssmcheck
    from mc.props import C03, C13
    from mc.refmodel import gauss

    tier = case["tier"]
    d, m, q = case["d"], case["m"], case["q"]
    nd = (q + 1) * d
    C = alphabets.fields(d, m, tier)[case["field"]]
    tc = ssmcheck.mean0(C, d, m, q, case["init_id"])
    strategy = "fixedinterval" if case["src"] == "fixedinterval_grid" else "fixedpoint"
    cfg = dict(ssm=case["ssm"], calib=case["calib"], relin=False, lin=case["lin"], m=m, strategy=strategy, init=case["init"], inexact_eps=2.0 ** -10)
    std0 = impl.init_std(cfg, q, d)
    fails = []
    worst = 0.0
    n = 0
    skipped = 0
    sample = None
    if strategy == "fixedinterval":
        prog = impl.fixed_grid_program(impl.cfg_key(cfg))
        jobs = [([0.0, 0.5], None), ([0.0, 0.125, 0.625, 0.75], None), ([0.0, 0.25, 0.375, 0.5, 0.625, 1.125], None)]
        if tier != "quick":
            jobs.append(([0.125 * i for i in range(12)], None))
    else:
        prog = impl.adaptive_program(impl.cfg_key(cfg))
        jobs = [([0.25, 0.125, 0.5], [0, 1, 0])]
    for a, b in jobs:
        if strategy == "fixedinterval":
            grid = a
            out = prog(jnp.asarray(C), jnp.asarray(grid), jnp.asarray(tc), jnp.ones(d), 0.0)
            obs, idxs = [True] * len(grid), list(range(len(grid)))
            tag0 = f"grid={grid}"
        else:
            S, r = a, b
            e = np.concatenate([[0.0], np.cumsum(S)])
            save_at = [0.0, float(e[1] * 0.5), float(e[1]), float(e[1] + (e[2] - e[1]) * 0.25), float(e[-2] + 0.75 * (e[-1] - e[-2]))]
            ends = scripted.step_ends(S, 0.0, save_at[-1], EPS)
            grid, obs, idxs = ssmcheck.union_grid(ends, save_at, EPS)
            Sp, rp = np.array(S + [S[-1]]), np.array(r + [0])
            out = prog(jnp.asarray(C), jnp.asarray(save_at), jnp.asarray(tc), jnp.ones(d), 0.0, jnp.asarray(Sp), jnp.asarray(rp), scripted.first_dt(Sp, rp), EPS)
            tag0 = f"S={S} save_at={save_at}"
        post = out["post"]
        try:
            res, sm, G = C03._ref(case, C, grid, obs, 0.0, tc.reshape(-1), std0)
        except gauss.Degenerate:
            continue
        T = len(idxs)
        scale_slack = ssmcheck.scale_slack(res)[-1]
        J = gauss.joint_cov(sm, G, idxs)
        J = gauss.calibrated(res, J) if res.calib != "mle" else C13._calibrate_joint(res, J, T, q, d)
        mjoint = np.concatenate([sm[i][0] for i in idxs])
        marg_T = jax.tree.map(lambda s: s[-1], _marginals(out, case["ssm"], post))
        for ti in range(q + 1):
            loss_fns = {avg: jax.jit(lambda dat, sd, avg=avg, ti=ti: probdiffeq.loss_lml_timeseries(average_pdfs=avg, tcoeff_index=ti)(dat, posterior=post, std=sd)) for avg in (True, False)}
            lossT_fn = jax.jit(lambda dat, sd, ti=ti: probdiffeq.loss_lml_terminal_values(tcoeff_index=ti)(dat, marginals=marg_T, std=sd))
            rows = [k * nd + ti * d + c for k in range(T) for c in range(d)]
            Hm = np.array([mjoint[r_] for r_ in rows], dtype=object)
            HJ = np.array([[J[a_, b_] for b_ in rows] for a_ in rows], dtype=object)
            mean_f = np.array([float(v) for v in Hm]).reshape(T, d)
            for pat, sval, dpal in itertools.product(("constant", "per_time", "per_dim"), STDS, (0, 1)):
                if pat == "per_dim" and case["ssm"] == "isotropic":
                    continue
                stdmat = np.full((T, d), sval)
                if pat == "per_time":
                    stdmat = stdmat * (1.0 + 0.5 * np.arange(T))[:, None]
                if pat == "per_dim":
                    stdmat = stdmat * (1.0 + 0.25 * np.arange(d))[None, :]
                sdm = np.sqrt(np.abs(np.array([float(HJ[i, i]) for i in range(T * d)]))).reshape(T, d)
                data = mean_f + (0.0 if dpal == 0 else 1.0) * (0.7 * stdmat + sdm) * np.where((np.arange(T)[:, None] + np.arange(d)[None, :]) % 2 == 0, 1.0, -0.5)
                # a-priori conditioning rule on the reference
                Sig = HJ.copy()
                for i in range(T * d):
                    Sig[i, i] = Sig[i, i] + gauss.mpf(float(stdmat.reshape(-1)[i])) ** 2
                Sf = gauss.tofloat(Sig)
                dS = np.sqrt(np.clip(np.diag(Sf), 1e-300, None))
                ev = np.linalg.eigvalsh(Sf / np.outer(dS, dS))
                cond = ev[-1] / max(ev[0], 1e-300)
                if not (ev[0] > 0 and cond < 1e10):
                    skipped += 1
                    continue
                try:
                    total = gauss.logpdf(list(gauss.M(data.reshape(-1))), list(Hm), Sig)
                except Exception:  # noqa: BLE001  (Cholesky of a numerically singular reference covariance)
                    skipped += 1
                    continue
                std_arg = jnp.asarray(stdmat[:, 0]) if case["ssm"] == "isotropic" else jnp.asarray(stdmat)
                for avg in (True, False):
                    got = float(loss_fns[avg](jnp.asarray(data), std_arg))
                    want = float(total / T) if avg else float(total)
                    n += 1
                    # the log-density inherits the conditioning of estimated scales (d LML / d log(scale) ~ T d): see ssmcheck.scale_slack
                    allowed = 1e-8 * max(1.0, cond * 1e-4) + 10 * scale_slack
                    dev = abs(got - want) / (abs(want) + T * d)
                    worst = max(worst, dev / allowed)
                    if not dev <= allowed:
                        fails.append(core.fail("timeseries_loss_value", f"{tag0} tcoeff={ti} std={pat}:{sval} data{dpal} average={avg}: got {got!r} want {want!r} (cond {cond:.1e})"))
                    if sample is None:
                        sample = dict(tag=tag0, tcoeff_index=ti, std=sval, average=avg, loss=got)
                # terminal-value loss on the terminal marginal
                rowsT = rows[-d:]
                mT = [mjoint[r_] for r_ in rowsT]
                ST = np.array([[J[a_, b_] for b_ in rowsT] for a_ in rowsT], dtype=object)
                for i in range(d):
                    ST[i, i] = ST[i, i] + gauss.mpf(float(stdmat[-1, i])) ** 2
                try:
                    wantT = float(gauss.logpdf(list(gauss.M(data[-1])), mT, ST))
                except Exception:  # noqa: BLE001
                    continue
                stdT = jnp.asarray(stdmat[-1, 0]) if case["ssm"] == "isotropic" else jnp.asarray(stdmat[-1])
                if case["ssm"] == "isotropic" and pat == "per_dim":
                    continue
                gotT = float(lossT_fn(jnp.asarray(data[-1]), stdT))
                n += 1
                devT = abs(gotT - wantT) / (abs(wantT) + d)
                worst = max(worst, devT / (1e-8 + 10 * scale_slack))
                if not devT <= 1e-8 + 10 * scale_slack:
                    fails.append(core.fail("terminal_loss_value", f"{tag0} tcoeff={ti} std={pat}:{sval} data{dpal}: got {gotT!r} want {wantT!r}"))
            if len(fails) > 8:
                break
        if len(fails) > 8:
            break
    seen = {}
    for f in fails:
        seen.setdefault(f["kind"], f)
    return core.result(case, list(seen.values()), transitions=n, traces=n, states=n, outcome="ok" if not fails else "|".join(sorted(seen)), dev=worst, sample=sample,
                       excluded_by_conditioning_rule=skipped)


def _marginals(out, ssm, post):
    """The library's own smoothing marginals object (needed as input of the terminal loss)."""
    return post.evaluate_marginals() if hasattr(post, "evaluate_marginals") else None


def merge_coverage(results):
    return dict(excluded_by_conditioning_rule=sum(r.get("excluded_by_conditioning_rule", 0) for r in results))
