"""C17 - Jacobian handlers return exact or exactly-unbiased Jacobian blocks.

Quadratic polynomial maps (n_in, d) -> (n_out, d) with cross-dimension and cross-coefficient coupling (tables), all
shapes n_in, n_out, d <= 3 (4 thorough; non-square on purpose), evaluation-point palette; the three handlers.
For the stochastic handlers `probdiffeq.backend.random.rademacher` is replaced (harness side) by the COMPLETE table
of 2^(n*d) sign patterns with num_probes = 2^(n*d): the average over all probes must equal the exact blocks.
"""

import itertools

import numpy as np

from mc import core

LEVEL = "model_checking"
ENGINE = "E2 xprod (full probe-space enumeration)"
TECHNIQUE = "exhaustive enumeration of map shapes x evaluation points x handlers with the complete set of 2^(n*d) Rademacher probes substituted for the random source; exact polynomial Jacobians as oracle"
LEVEL_TEXT = "For every shape and point the full probe space is enumerated, so unbiasedness is decided exactly (average over all sign patterns == exact block), not statistically."
LEVEL_NOTE = "Trusted: analytic Jacobian of the quadratic map; the harness-side replacement of backend.random.rademacher (restored afterwards). Tolerance 1e-12."
TIMEOUT_S = {"quick": 900, "thorough": 3600}


def _tab(shape, salt):
    n = int(np.prod(shape))
    x = np.sin(1.0 + 1.37 * np.arange(n) + 0.71 * salt) * 43758.5453
    return (2 * (x - np.floor(x)) - 1).reshape(shape)


def enumerate_cases(tier, seed):
    top = 3 if tier == "quick" else 4
    cases = []
    for n_in, n_out, d in itertools.product(range(1, top + 1), range(1, top + 1), range(1, top + 1)):
        if tier != "quick" and max(n_in, n_out) * d > 12:
            continue
        cases.append(dict(id=f"shape/in{n_in}/out{n_out}/d{d}", group=f"{n_in}{n_out}{d}", part="shape", n_in=n_in, n_out=n_out, d=d, seed=seed, weight=2 ** (max(n_in, n_out) * d) // 8 + 5))
    cases.append(dict(id="malformed", group="malformed", part="malformed", seed=seed, weight=5))
    return cases


def describe(tier, seed):
    return dict(
        rule="case = (n_in, n_out, d); inside: 2 evaluation points x {materialize(jacfwd), materialize(jacrev), monte_carlo_fwd, monte_carlo_rev} x "
             "{materialize_dense, trace_along_d, diagonal_along_d} with all 2^(n*d) probes; non-trivial = d >= 2 (cross-dimension coupling present)",
        exhaustive=True,
        alphabets=dict(n_in=[1, 2, 3] + ([4] if tier != "quick" else []), n_out="same", d="same", handlers=["materialize", "monte_carlo_fwd", "monte_carlo_rev"]),
        bounds=dict(max_probes=2 ** (9 if tier == "quick" else 12), tolerance=1e-12),
        assumptions=["maps are quadratic polynomials with dense coupling tables"],
    )


def run_cases(cases):
    from mc import jaxenv

    jaxenv.setup()
    for case in cases:
        yield core.guarded(case, _run_shape if case["part"] == "shape" else _run_malformed)


def _all_signs(n, d, dtype):
    import jax.numpy as jnp

    k = n * d
    idx = np.arange(2 ** k)
    bits = ((idx[:, None] >> np.arange(k)[None, :]) & 1) * 2.0 - 1.0
    return jnp.asarray(bits.reshape(2 ** k, n, d), dtype=dtype)


def _run_shape(case):
    import jax
    import jax.numpy as jnp
    import probdiffeq.backend.random as prandom
    from probdiffeq import probdiffeq

    n_in, n_out, d = case["n_in"], case["n_out"], case["d"]
    W = _tab((n_out, d, n_in, d), 1)
    V = 0.5 * _tab((n_out, d, n_in, d, n_in, d), 2)
    c0 = _tab((n_out, d), 3)
    Wj, Vj, cj = jnp.asarray(W), jnp.asarray(V), jnp.asarray(c0)

    def fun(x):
        return cj + jnp.einsum("menk,nk->me", Wj, x) + jnp.einsum("menkpl,nk,pl->me", Vj, x, x)

    def exact(x):
        fx = c0 + np.einsum("menk,nk->me", W, x) + np.einsum("menkpl,nk,pl->me", V, x, x)
        J = W + np.einsum("menkpl,pl->menk", V, x) + np.einsum("meplnk,pl->menk", V, x)
        return fx, J

    fails = []
    worst = 0.0
    n = 0
    sample = None
    orig = prandom.rademacher
    try:
        for pt in (0, 1):
            x = _tab((n_in, d), 10 + pt + case["seed"] % 2)
            fx_w, J_w = exact(x)
            tr_w = np.einsum("mdnd->mn", J_w)
            dg_w = np.einsum("mdnd->dmn", J_w)
            xj = jnp.asarray(x)
            handlers = {
                "materialize_fwd": probdiffeq.jacobian_materialize(jacfun=jax.jacfwd),
                "materialize_rev": probdiffeq.jacobian_materialize(jacfun=jax.jacrev),
                "mc_fwd": probdiffeq.jacobian_monte_carlo_fwd(seed=3, num_probes=2 ** (n_in * d)),
                "mc_rev": probdiffeq.jacobian_monte_carlo_rev(seed=3, num_probes=2 ** (n_out * d)),
            }
            for hname, h in handlers.items():
                def fake(key, /, shape, dtype):
                    s, nn, dd = shape
                    assert s == 2 ** (nn * dd), f"harness: probe table size {s} for shape {shape}"
                    return _all_signs(nn, dd, dtype)

                prandom.rademacher = fake if hname.startswith("mc") else orig
                st = h.init_jacobian_handler()
                for method, want, shape in (("materialize_dense", J_w, (n_out, d, n_in, d)), ("calculate_trace_along_d", tr_w, (n_out, n_in)),
                                            ("calculate_diagonal_along_d", dg_w, (d, n_out, n_in))):
                    fx, out, st2 = getattr(h, method)(fun, xj, st)
                    fx, out = np.asarray(fx), np.asarray(out)
                    n += 1
                    tag = f"{hname}.{method} point{pt}"
                    if fx.shape != fx_w.shape or not np.allclose(fx, fx_w, rtol=1e-13, atol=1e-13):
                        fails.append(core.fail("function_value", tag))
                    if out.shape != shape:
                        fails.append(core.fail("block_shape", f"{tag}: {out.shape} vs {shape}"))
                        continue
                    dev = float(np.max(np.abs(out - want))) / max(np.max(np.abs(want)), 1.0)
                    worst = max(worst, dev / 1e-12)
                    if not dev <= 1e-12:
                        fails.append(core.fail("block_value", f"{tag}: deviation {dev:.2e}"))
                    if hname.startswith("mc") and method != "materialize_dense":
                        if np.array_equal(np.asarray(st2), np.asarray(st)):
                            fails.append(core.fail("key_not_advanced", tag))
                    if sample is None and method == "calculate_trace_along_d":
                        sample = dict(handler=hname, trace=[[float(v) for v in row] for row in out])
            # real random source: two successive calls must use different probes (keys advance)
            prandom.rademacher = orig
            for hname in ("mc_fwd", "mc_rev"):
                h = probdiffeq.jacobian_monte_carlo_fwd(seed=1, num_probes=3) if hname == "mc_fwd" else probdiffeq.jacobian_monte_carlo_rev(seed=1, num_probes=3)
                k0 = h.init_jacobian_handler()
                _, a, k1 = h.calculate_diagonal_along_d(fun, xj, k0)
                _, b, k2 = h.calculate_diagonal_along_d(fun, xj, k1)
                n += 1
                if np.array_equal(np.asarray(k1), np.asarray(k0)) or np.array_equal(np.asarray(k2), np.asarray(k1)):
                    fails.append(core.fail("key_not_advanced", f"{hname} real source"))
                # the estimate depends on the probes only if the probed space (n_in*d forward, n_out*d reverse) has off-diagonal terms
                probe_dim = (n_in if hname == "mc_fwd" else n_out) * d
                if probe_dim >= 4 and np.array_equal(np.asarray(a), np.asarray(b)):
                    fails.append(core.fail("same_probes_reused", f"{hname}: two successive estimates are identical"))
    finally:
        prandom.rademacher = orig
    seen = {}
    for f in fails:
        seen.setdefault(f["kind"], f)
    return core.result(case, list(seen.values()), transitions=n, traces=n, states=n, outcome="ok" if not fails else "|".join(sorted(seen)), dev=worst, sample=sample, nontrivial=d >= 2)


def _run_malformed(case):
    import jax.numpy as jnp
    from probdiffeq import probdiffeq

    fails = []
    n = 0
    good_x = jnp.ones((2, 3))
    bad = {
        "x_1d": (lambda x: x, jnp.ones((3,))),
        "x_3d": (lambda x: x, jnp.ones((2, 3, 1))),
        "list_output": (lambda x: [x], good_x),
        "tuple_output": (lambda x: (x, x), good_x),
        "out_1d": (lambda x: x[0], good_x),
        "out_3d": (lambda x: x[None], good_x),
        "mismatched_d": (lambda x: x[:, :2], good_x),
        "x_list": (lambda x: jnp.asarray(x), [[1.0, 2.0, 3.0]]),
    }
    for hname, h in (("materialize", probdiffeq.jacobian_materialize()), ("mc_fwd", probdiffeq.jacobian_monte_carlo_fwd()), ("mc_rev", probdiffeq.jacobian_monte_carlo_rev())):
        for method in ("materialize_dense", "calculate_trace_along_d", "calculate_diagonal_along_d"):
            for bname, (f, x) in bad.items():
                n += 1
                try:
                    out = getattr(h, method)(f, x, h.init_jacobian_handler())
                    fails.append(core.fail("malformed_input_accepted", f"{hname}.{method} {bname}: returned shapes {[getattr(o, 'shape', None) for o in out[:2]]}"))
                except (TypeError, ValueError):
                    pass
            # a well-formed call still works
            getattr(h, method)(lambda x: x[:1] * 2.0, good_x, h.init_jacobian_handler())
    seen = {}
    for f in fails:
        seen.setdefault(f["detail"][:60], f)
    return core.result(case, list(seen.values())[:6], transitions=n, traces=n, states=n, outcome="ok" if not fails else "accepted", sample=dict(corruptions=sorted(bad)))
