"""C03 - smoothing posterior equals the exact Rauch-Tung-Striebel posterior.

Parts (all exhaustive over their listed alphabets):
  grid   fixed-interval smoother on fixed grids (all step sequences over a dyadic menu)
  fp     fixed-point smoother through solve_adaptive_save_at with *enumerated* step histories
         (traceable scripted estimator/controller: accepted sizes, rejection counts), checkpoint layouts
         (interior / at step ends / two in one step) and endings (last step ends exactly at, or beyond, t1)
  every  fixed-interval smoother through test_util.solve_adaptive_save_every_step with enumerated histories
         and endings (exactly at / within eps / beyond t1, with and without clipping)
Oracle: 60-digit RTS smoother on the union grid of step ends and checkpoints (mc/refmodel/gauss.py):
marginals, filtering marginals, the joint law reconstructed from the returned backward factorisation
(marginals, adjacent and end-to-end cross-covariances), smoothed <= filtered variances, terminal
smoothing marginal == filtering marginal when the last step ends at t1, fixed-interval == fixed-point.
"""

import itertools

import numpy as np

from mc import alphabets, core

LEVEL = "model_checking"
ENGINE = "E2 xprod + E1 (traceable scripted histories)"
TECHNIQUE = "exhaustive enumeration of configurations x fields x all step sequences / scripted accept-reject histories x checkpoint layouts x endings on the real solvers, compared with an exact RTS smoother (marginals, filtering marginals, full backward Markov factorisation incl. cross-covariances)"
LEVEL_TEXT = ("Every element of the listed product space is executed on the real code; the smoothing marginals at every output time, the filtering marginals, "
              "and the joint law implied by the returned MarkovSequence are compared with an independent exact RTS reference.")
LEVEL_NOTE = ("Trusted: mpmath; reference semantics transcribed from the documentation (self-checked against batch conditioning in C02). Step histories are scripted "
              "(dyadic sizes), so no tolerance-driven history is explored here (C01/C05 do that).")
TIMEOUT_S = {"quick": 1800, "thorough": 21600}
EPS = 2.0 ** -20
DAMP = 2.0 ** -10


def axes(tier):
    quick = tier == "quick"
    return dict(
        ssm=["dense", "isotropic", "blockdiag"],
        calib=["none", "mle", "dynamic"],
        lin=["ts0", "ts1"],
        dm=[(2, 1), (1, 2)] if quick else [(1, 1), (2, 1), (1, 2), (2, 2)],
        q=[2, 3] if quick else [2, 3, 4, 6],
        init=["exact", "inexact"],
        steps=[2.0 ** -7, 0.125, 0.5] if quick else [2.0 ** -7, 0.125, 0.25, 0.5],
        hist_sizes=[0.125, 0.25, 0.5],
    )


def histories(tier):
    """(S, r): accepted step sizes and rejection counts; lengths 2..3 (quick) / 2..4 (thorough)."""
    sizes = [0.125, 0.25, 0.5]
    out = []
    if tier == "quick":
        for S in itertools.product(sizes, repeat=2):
            for r in ((0, 0), (1, 0), (0, 1)):
                out.append((list(S), list(r)))
        for S in ((0.125, 0.25, 0.5), (0.5, 0.25, 0.125), (0.25, 0.25, 0.5), (0.5, 0.125, 0.125)):
            for r in ((0, 0, 0), (0, 1, 0)):
                out.append((list(S), list(r)))
        return out
    for S in itertools.product(sizes, repeat=2):
        for r in ((0, 0), (1, 0), (0, 1), (2, 0), (0, 2)):
            out.append((list(S), list(r)))
    for S in itertools.product(sizes, repeat=3):
        for r in ((0, 0, 0), (1, 0, 0), (0, 1, 0), (0, 0, 1), (2, 0, 0)):
            out.append((list(S), list(r)))
    for S in itertools.product(sizes, repeat=4):
        if len(set(S)) == 2 and S[0] != S[1] and S[2] != S[3]:
            for r in ((0, 0, 0, 0), (0, 1, 0, 1)):
                out.append((list(S), list(r)))
    return out


def layouts_for(S):
    """Checkpoint layouts relative to the step ends e_1 < e_2 < ...: name -> (save_at, note)."""
    e = np.concatenate([[0.0], np.cumsum(S)])
    L = len(S)
    out = {}
    last = e[L]
    prev = e[L - 1]
    for ending, t1 in (("exact", last), ("beyond", prev + (last - prev) * 0.75)):
        pts_interior = e[1] + (e[2] - e[1]) * 0.25 if L >= 2 else e[1] * 0.5
        pts_interior2 = e[1] + (e[2] - e[1]) * 0.5 if L >= 2 else e[1] * 0.75
        out[f"interior+stepend/{ending}"] = [0.0, e[1] * 0.5, e[1], t1]
        out[f"two_in_one_step/{ending}"] = [0.0, pts_interior, pts_interior2, t1]
    return {k: [float(x) for x in v] for k, v in out.items() if all(b > a for a, b in zip(v[:-1], v[1:]))}


def enumerate_cases(tier, seed):
    ax = axes(tier)
    cases = []
    for (d, m), q, init, calib, ssm, lin in itertools.product(ax["dm"], ax["q"], ax["init"], ax["calib"], ax["ssm"], ax["lin"]):
        if q < m:
            continue
        if tier != "quick" and q >= 6 and not ((d, m) == (2, 1) and init == ("exact" if lin == "ts0" else "inexact")):
            continue  # budget: the 60-digit reference at q = 6 costs ~5 min per configuration; one (d, m) and one init kind per linearisation
        fnames = sorted(alphabets.fields(d, m, tier))
        # one field per configuration (quick: chosen by VERIF_SEED; thorough: rotating with the configuration so that all fields occur)
        rot = seed if tier == "quick" else (seed + q + len(ssm) + len(calib) + (lin == "ts1") + (init == "exact"))
        for fname in [fnames[rot % len(fnames)]]:
            base = dict(ssm=ssm, calib=calib, lin=lin, d=d, m=m, q=q, init=init, field=fname, init_id=0, tier=tier)
            tag = f"{ssm}/{calib}/{lin}/d{d}m{m}/q{q}/{init}/{fname}"
            cases.append(dict(id="grid/" + tag, group=f"g/d{d}m{m}/q{q}/{init}/{calib}", part="grid", weight=30 * q * d, **base))
            cases.append(dict(id="fp/" + tag, group=f"f/d{d}m{m}/q{q}/{init}/{calib}", part="fp", weight=60 * q * d, **base))
    # every-step part: not jit-able as a whole (python loop), so a reduced configuration axis
    for ssm, calib, lin in itertools.product(ax["ssm"], ax["calib"], ["ts0"] if tier == "quick" else ["ts0", "ts1"]):
        for clip in (False, True):
            cases.append(dict(id=f"every/{ssm}/{calib}/{lin}/clip{int(clip)}", group=f"e/{ssm}/{calib}/{lin}/{int(clip)}", part="every", ssm=ssm, calib=calib, lin=lin,
                              d=2, m=1, q=2, init="inexact", field="lv_t", init_id=0, clip=clip, tier=tier, weight=400))
    return cases


def describe(tier, seed):
    ax = axes(tier)
    return dict(
        rule="case = (part, factorisation, calibration, linearisation, d, ODE order, q, init kind, field); inside: every admissible grid (grid part), "
             "every scripted history x checkpoint layout x ending (fp part), every history x ending x clipping (every part); non-trivial = >= 2 steps",
        exhaustive=True,
        alphabets=dict(ax, histories=f"{len(histories(tier))} (sizes x rejection placements)", layouts=sorted(layouts_for([0.125, 0.25, 0.5]))),
        bounds=dict(damps=[0.0, DAMP], eps=EPS, tolerance=1e-8, amp_max=1e6),
        assumptions=["polynomial fields, dyadic times", "checkpoints either coincide with a step end or lie clearly inside a step (eps-near placements: C05, C06)"],
    )


_CACHE = {}


def _ref(case, C, grid, observe, damp, mean0, std0):
    from mc import ssmcheck
    from mc.refmodel import gauss

    st = ssmcheck.ref_structure(case["ssm"], case["lin"], False, case["d"])
    key = (case["field"], tuple(grid), tuple(observe), damp, case["q"], case["d"], case["m"], case["lin"], st, case["calib"], case["init"])
    if key not in _CACHE:
        if len(_CACHE) > 5000:
            _CACHE.clear()
        field = gauss.PolyField(C, case["d"], case["m"])
        res = gauss.ekf(field=field, q=case["q"], grid=grid, mean0=mean0, std0=std0, base_scale=[1.0] * case["d"], lin=case["lin"], structure=st,
                        damp=damp, calib=case["calib"], observe=observe)
        sm, G = gauss.rts(res)
        _CACHE[key] = (res, sm, G)
    return _CACHE[key]


def run_cases(cases):
    from mc import jaxenv

    jaxenv.setup()
    from mc.props import C02

    C02.selfcheck()
    for case in cases:
        fn = {"grid": _run_grid, "fp": _run_fp, "every": _run_every}[case["part"]]
        yield core.guarded(case, fn)


def _cfg(case, strategy, **kw):
    cfg = dict(ssm=case["ssm"], calib=case["calib"], relin=False, lin=case["lin"], m=case["m"], strategy=strategy, init=case["init"], inexact_eps=2.0 ** -10)
    cfg.update(kw)
    return cfg


def _smooth_amp(grid, q):
    hs = np.diff(grid)
    return float((np.max(hs) / np.min(hs)) ** q)


def _check_solution(case, fails, wk, tag, out, res, sm, G, grid, idxs, strategy, amp):
    """Compare one returned smoothing solution (dict of numpy arrays + 'post') with the reference at grid indices idxs."""
    from mc import compare, ssmcheck
    from mc.refmodel import gauss

    q, d = case["q"], case["d"]
    hs_all = ssmcheck.local_steps(grid)
    hs = [hs_all[i] for i in idxs]
    K = len(idxs)
    amps = [amp] * K
    slack = ssmcheck.scale_slack(res)
    slack = [slack[-1]] * K
    # (i) smoothing marginals
    ssmcheck.compare_marginals(fails, tag + " smoothing", out["mean"], out["cov"], [sm[i] for i in idxs], res, q, d, hs, amps, slack, wk, "smooth_")
    # filtering marginals
    ssmcheck.compare_marginals(fails, tag + " filtering", out["filt_mean"], out["filt_cov"], [res.filt[i] for i in idxs], res, q, d, hs, amps, slack, wk, "filt_")
    # (iii) smoothed variances <= filtered variances (scaled coordinates, rounding floor)
    for k in range(K):
        W = np.array([float(w) for w in gauss.taylor_scaling(q, d, hs[k])])
        vs = np.diag(out["cov"][k]) * W * W
        vf = np.diag(out["filt_cov"][k]) * W * W
        if np.any(vs > vf * (1 + 1e-7) + 1e-9 * np.max(vf) * amp + 1e-300):
            fails.append(core.fail("smoothed_variance_exceeds_filtered", f"{tag} point {k}: {vs} vs {vf}"))
    # (iv) backward Markov factorisation: marginals + cross-covariances
    mT, PT, kernels = ssmcheck.markov_to_dense(out["post"], case["ssm"])
    if len(kernels) != K - 1:
        fails.append(core.fail("markov_length", f"{tag}: {len(kernels)} conditionals for {K} output times"))
        return
    means, covs, cross, end_cross = ssmcheck.joint_from_markov(mT, PT, kernels)
    ssmcheck.compare_marginals(fails, tag + " markov", means, covs, [sm[i] for i in idxs], res, q, d, hs, amps, slack, wk, "markov_")
    allowed = (compare.TAU + slack[-1]) * amp
    J = gauss.joint_cov(sm, G, idxs)
    n = (q + 1) * d
    for i in range(K - 1):
        Cref = gauss.calibrated(res, J[i * n:(i + 1) * n, (i + 1) * n:(i + 2) * n])
        ssmcheck.compare_cross(fails, f"{tag} cov(x_{i},x_{i + 1})", cross[i], Cref, gauss.calibrated(res, sm[idxs[i]][1]), gauss.calibrated(res, sm[idxs[i + 1]][1]),
                               q, d, hs[i], hs[i + 1], allowed, wk)
    Cref = gauss.calibrated(res, J[0:n, (K - 1) * n:K * n])
    ssmcheck.compare_cross(fails, f"{tag} cov(x_0,x_K)", end_cross, Cref, gauss.calibrated(res, sm[idxs[0]][1]), gauss.calibrated(res, sm[idxs[-1]][1]),
                           q, d, hs[0], hs[-1], allowed, wk, kind="crosscov_end")


def _tonumpy(out):
    return {k: (np.asarray(v) if k != "post" else v) for k, v in out.items()}


def _run_grid(case):
    import jax.numpy as jnp

    from mc import compare, impl, ssmcheck

    tier = case["tier"]
    ax = axes(tier)
    d, m, q = case["d"], case["m"], case["q"]
    C = alphabets.fields(d, m, tier)[case["field"]]
    tc = ssmcheck.mean0(C, d, m, q, case["init_id"])
    cfg = _cfg(case, "fixedinterval")
    std0 = impl.init_std(cfg, q, d)
    prog = impl.fixed_grid_program(impl.cfg_key(cfg))
    fails, wk = [], {}
    n_pts = n_ref = 0
    sample = None
    from mc.refmodel import gauss
    for grid in alphabets.grids(ax["steps"], [3] if tier == "quick" else [2, 3, 4]):
        if _smooth_amp(grid, q) > compare.AMP_MAX:
            continue
        if tier != "quick" and len(grid) == 5 and len(set(np.diff(grid))) > 2:
            continue
        cond = compare.init_conditioning(std0, 1.0, np.min(np.diff(grid)), q)  # a-priori rule, see compare.py (same as C02)
        if cond > 1e4:
            continue
        for damp in (0.0, DAMP):
            out = _tonumpy(prog(jnp.asarray(C), jnp.asarray(grid), jnp.asarray(tc), jnp.ones(d), damp))
            try:
                res, sm, G = _ref(case, C, grid, [True] * len(grid), damp, tc.reshape(-1), std0)
            except gauss.Degenerate:
                continue
            n_ref += 1
            idxs = list(range(len(grid)))
            _check_solution(case, fails, wk, f"grid={grid} damp={damp}", out, res, sm, G, grid, idxs, "fixedinterval", _smooth_amp(grid, q) * cond)
            ssmcheck.compare_scales(fails, f"grid={grid} damp={damp}", out["output_scale"], res, idxs[-out["output_scale"].shape[0]:], [1e0 * _smooth_amp(grid, q) * cond] * len(idxs), wk)
            # (ii) terminal smoothing marginal == terminal filtering marginal, implementation against itself (exact)
            if not (np.array_equal(out["mean"][-1], out["filt_mean"][-1]) or np.allclose(out["mean"][-1], out["filt_mean"][-1], rtol=1e-12, atol=0)):
                fails.append(core.fail("terminal_smoothing_marginal_differs_from_filtering", f"grid={grid}: {out['mean'][-1][:d]} vs {out['filt_mean'][-1][:d]}"))
            n_pts += len(grid)
            if sample is None:
                sample = dict(grid=grid, damp=damp, terminal_mean=[float(v) for v in out["mean"][-1][:d]])
            if len(fails) > 12:
                break
        if len(fails) > 12:
            break
    fails = ssmcheck.dedup(fails)
    return core.result(case, fails, transitions=n_pts, traces=n_ref, states=n_ref, outcome="ok" if not fails else "|".join(sorted(f["kind"] for f in fails)),
                       dev=max(wk.values(), default=0.0), sample=sample, dev_by_kind=wk)


def _run_fp(case):
    import jax.numpy as jnp

    from mc import compare, impl, scripted, ssmcheck
    from mc.refmodel import gauss

    tier = case["tier"]
    d, m, q = case["d"], case["m"], case["q"]
    C = alphabets.fields(d, m, tier)[case["field"]]
    tc = ssmcheck.mean0(C, d, m, q, case["init_id"])
    cfg = _cfg(case, "fixedpoint")
    std0 = impl.init_std(cfg, q, d)
    prog = impl.adaptive_program(impl.cfg_key(cfg))
    fails, wk = [], {}
    n_pts = n_ref = 0
    sample = None
    sigs = set()
    LPAD = 4
    for S, r in histories(tier):
        for lname, save_at in layouts_for(S).items():
            ends = scripted.step_ends(S, 0.0, save_at[-1], EPS)
            grid, obs, idxs = ssmcheck.union_grid(ends, save_at, EPS)
            if _smooth_amp(grid, q) > compare.AMP_MAX:
                continue
            Sp = np.array(S + [S[-1]] * (LPAD - len(S)))
            rp = np.array(r + [0] * (LPAD - len(r)))
            damp = DAMP if (len(sigs) % 2) else 0.0
            out = _tonumpy(prog(jnp.asarray(C), jnp.asarray(save_at), jnp.asarray(tc), jnp.ones(d), damp, jnp.asarray(Sp), jnp.asarray(rp),
                                scripted.first_dt(Sp, rp), EPS))
            tag = f"S={S} r={r} layout={lname} save_at={save_at} damp={damp}"
            sigs.add((tuple(S), tuple(r), lname))
            # the history must be the scripted one: step counts at the checkpoints
            want_n = [next(k for k, e in enumerate(ends) if not (e + EPS < s_)) for s_ in save_at[1:]]
            if list(out["num_steps"]) != want_n:
                fails.append(core.fail("num_steps", f"{tag}: {list(out['num_steps'])} vs {want_n}"))
                continue
            try:
                res, sm, G = _ref(case, C, grid, obs, damp, tc.reshape(-1), std0)
            except gauss.Degenerate:
                continue
            n_ref += 1
            want_t = [grid[i] for i in idxs]
            if not np.allclose(out["t"], want_t, rtol=0, atol=EPS):
                fails.append(core.fail("times", f"{tag}: {out['t']} vs {want_t}"))
            _check_solution(case, fails, wk, tag, out, res, sm, G, grid, idxs, "fixedpoint", _smooth_amp(grid, q))
            n_pts += len(save_at)
            if sample is None:
                sample = dict(history=dict(S=S, r=r), layout=lname, save_at=save_at, step_ends=[float(e) for e in ends], num_steps=[int(x) for x in out["num_steps"]])
            if len(fails) > 12:
                break
        if len(fails) > 12:
            break
    fails = ssmcheck.dedup(fails)
    return core.result(case, fails, transitions=n_pts, traces=n_ref, states=len(sigs), outcome="ok" if not fails else "|".join(sorted(f["kind"] for f in fails)),
                       dev=max(wk.values(), default=0.0), sample=sample, dev_by_kind=wk)


def _run_every(case):
    """Fixed-interval smoother through test_util.solve_adaptive_save_every_step with scripted histories."""
    import jax.numpy as jnp
    from probdiffeq.util import test_util

    from mc import compare, impl, scripted, ssmcheck
    from mc.refmodel import gauss

    tier = case["tier"]
    d, m, q = case["d"], case["m"], case["q"]
    C = alphabets.fields(d, m, tier)[case["field"]]
    tc = ssmcheck.mean0(C, d, m, q, case["init_id"])
    cfg = _cfg(case, "fixedinterval")
    std0 = impl.init_std(cfg, q, d)
    fails, wk = [], {}
    n_pts = n_ref = 0
    sample = None
    hist = [([0.25, 0.125, 0.5], [0, 1, 0]), ([0.5, 0.25], [1, 0]), ([0.125, 0.125, 0.25], [0, 0, 2])]
    if tier != "quick":
        hist += [([0.25, 0.25, 0.25, 0.25], [0, 0, 0, 0]), ([0.5, 0.125, 0.25], [2, 0, 1])]
    for S, r in hist:
        e = np.concatenate([[0.0], np.cumsum(S)])
        # within_eps_below: the last step ends eps/2 *below* the final time (the driver loop used to livelock there: fixed by 94d3e79;
        # a regression makes this worker time out, which the runner reports as a violation)
        endings = {"exact": float(e[-1]), "within_eps": float(e[-1] - EPS / 2), "within_eps_below": float(e[-1] + EPS / 2), "beyond": float(e[-2] + 0.75 * (e[-1] - e[-2]))}
        for ename, t1 in endings.items():
            ssm = impl.SSM[case["ssm"]]()
            prior = impl.make_prior(cfg, ssm, jnp.asarray(tc), jnp.ones(d))
            con = impl.make_constraint(ssm, jnp.asarray(C), m, case["lin"])
            solver = impl.make_solver(cfg, con)
            Sj, rj = jnp.asarray(S), jnp.asarray(r)
            solve = test_util.solve_adaptive_save_every_step(solver, scripted.ScriptErr(Sj), control=scripted.ScriptCtl(Sj, rj), clip_dt=case["clip"])
            sol = solve(prior, 0.0, t1, atol=1.0, rtol=1.0, dt0=scripted.first_dt(S, r), eps=EPS, damp=0.0)
            mean, cov = sol.u.to_multivariate_normal()
            fm, fc = sol.solution_full.filtering.to_multivariate_normal()
            out = _tonumpy(dict(mean=mean, cov=cov, filt_mean=fm, filt_cov=fc, t=sol.t, num_steps=sol.num_steps, output_scale=sol.output_scale, post=sol.solution_full.posterior))
            tag = f"S={S} r={r} ending={ename} t1={t1} clip={case['clip']}"
            # expected reported grid: step ends before t1, then t1 (interpolated if overstepped; the step end itself if within eps)
            if case["clip"]:
                # with clipping (and halving after rejections of clipped attempts) the step grid is whatever the loop produced;
                # the protocol itself is C06's business, here the reported grid is taken as the step grid (every step is reported)
                ends = [float(x) for x in out["t"]]
                if abs(ends[-1] - t1) > EPS or any(b <= a for a, b in zip(ends[:-1], ends[1:])):
                    fails.append(core.fail("times", f"{tag}: reported {ends}"))
                    continue
                grid, obs = ends, [True] * len(ends)
                want_t = list(ends)
            else:
                ends = [float(x) for x in e]
                if abs(ends[-1] - t1) <= EPS:
                    grid, obs, want_t = ends, [True] * len(ends), list(ends)
                else:
                    grid = ends[:-1] + [t1, ends[-1]]
                    obs = [True] * (len(ends) - 1) + [False, True]
                    want_t = ends[:-1] + [t1]
            if len(out["t"]) != len(want_t) or not np.allclose(out["t"], want_t, rtol=0, atol=EPS):
                fails.append(core.fail("times", f"{tag}: reported {out['t']} expected {want_t}"))
                continue
            try:
                res, sm, G = _ref(case, C, grid, obs, 0.0, tc.reshape(-1), std0)
            except gauss.Degenerate:
                continue
            n_ref += 1
            idxs = list(range(len(want_t)))
            _check_solution(case, fails, wk, tag, out, res, sm, G, grid, idxs, "fixedinterval", _smooth_amp(grid, q))
            if ename != "beyond" or case["clip"]:
                if not np.allclose(out["mean"][-1], out["filt_mean"][-1], rtol=1e-12, atol=0):
                    fails.append(core.fail("terminal_smoothing_marginal_differs_from_filtering", f"{tag}: {out['mean'][-1][:d]} vs {out['filt_mean'][-1][:d]}"))
            n_pts += len(want_t)
            if sample is None:
                sample = dict(history=dict(S=S, r=r), ending=ename, reported_t=[float(x) for x in out["t"]])
            if len(fails) > 12:
                break
        if len(fails) > 12:
            break
    fails = ssmcheck.dedup(fails)
    return core.result(case, fails, transitions=n_pts, traces=n_ref, states=n_ref, outcome="ok" if not fails else "|".join(sorted(f["kind"] for f in fails)),
                       dev=max(wk.values(), default=0.0), sample=sample, dev_by_kind=wk)


def merge_coverage(results):
    wk = {}
    for r in results:
        for k, v in (r.get("dev_by_kind") or {}).items():
            wk[k] = max(wk.get(k, 0.0), v)
    return dict(worst_deviation_as_fraction_of_tolerance_by_observable=wk)
