"""C01 - adaptive solves meet the tolerance; fixed-step solves converge at order nu (= q + 1).

The statement quantifies over a continuum; model checking decides it on a finite lattice and says so (level
"exploration"): IVP catalogue with closed-form solutions (written independently of JAX) x tolerance lattice x
checkpoint layouts x final-time remainders after the last natural step x dt0 x clip x factorisations x calibration
modes x strategies x linearisations x nu.

adaptive   |mean - truth| <= C (atol + rtol |u|) at every requested time, all outputs finite; C = 30 (fixed; the
           worst ratio over the thorough lattice is recorded in the evidence and must stay below C / 10).
remainder  final time = t_k + r for a natural step end t_k and r in {0, 1e-13, eps/2, 2 eps, 1e-6, 1e-3}: the tiny
           clipped / interpolated last step must not spoil accuracy or finiteness.
order      uniform grids h, h/2, h/4, h/8: least-squares slope of log(max error) vs log(h) over the three finest levels >= nu - 0.9.
"""

import itertools
import math

import numpy as np

from mc import alphabets, core

LEVEL = "exploration"
ENGINE = "E2 xprod"
TECHNIQUE = "exhaustive lattice enumeration (IVP catalogue x tolerances x checkpoint layouts x final-time remainders x dt0 x clip x factorisations x calibration x strategies x linearisation x order) on the real adaptive and fixed-grid solvers against closed-form solutions; convergence-order regression"
LEVEL_TEXT = "The continuum statement is decided on an explicitly listed lattice; every lattice point is solved and compared with the closed-form solution (tolerance multiple C=30; observed-order regression on 4 refinement levels)."
LEVEL_NOTE = "Closed-form solutions in plain Python (math module). A constant-factor mis-scaling of the error estimate below ~10x is not C01's job (C07 decides it exactly)."
TIMEOUT_S = {"quick": 1800, "thorough": 21600}
CBOUND = 30.0
# observed order must be >= nu - SLOPE_MARGIN (three finest levels above rounding); measured on the repaired tree: first-order problems
# reach nu - 0.79 in the worst case (Riccati, nu = 6, large solution derivatives near t = 1), typical nu - 0.1
SLOPE_MARGIN = 0.9


def problems():
    """name -> (d, m, tensor, initial values [m][d], truth(t) -> list, t1)"""
    T = alphabets.T
    out = {}
    lam = -0.75
    out["linear"] = (1, 1, alphabets.tensor(1, 1, [(0, [1], lam)]), [[1.5]], lambda t: [1.5 * math.exp(lam * t)], 1.0)
    out["logistic"] = (1, 1, alphabets.tensor(1, 1, [(0, [1], 1.0), (0, [1, 1], -1.0)]), [[0.25]], lambda t: [0.25 * math.exp(t) / (1 - 0.25 + 0.25 * math.exp(t))], 1.0)
    out["gauss_t"] = (1, 1, alphabets.tensor(1, 1, [(0, [T(1, 1), 1], -2.0)]), [[1.25]], lambda t: [1.25 * math.exp(-t * t)], 1.0)
    out["riccati"] = (1, 1, alphabets.tensor(1, 1, [(0, [], 1.0), (0, [1, 1], 1.0)]), [[0.0]], lambda t: [math.tan(t)], 1.0)
    a = 0.125
    out["rotdamp"] = (2, 1, alphabets.tensor(2, 1, [(0, [1], -a), (0, [2], -1.0), (1, [1], 1.0), (1, [2], -a)]), [[1.0, 0.5]],
                      lambda t: [math.exp(-a * t) * (math.cos(t) - 0.5 * math.sin(t)), math.exp(-a * t) * (math.sin(t) + 0.5 * math.cos(t))], 1.0)
    # the same rotation with time rescaled by 4096 (a power of 4: the rescaling is exact in binary arithmetic): |u'| = 4096 |u|, so any
    # confusion between the state and its derivatives in the tolerance reference, or a step-size rule tied to O(1) time scales, shows
    lamf = 4096.0
    out["rotdamp_fast"] = (2, 1, alphabets.tensor(2, 1, [(0, [1], -a * lamf), (0, [2], -lamf), (1, [1], lamf), (1, [2], -a * lamf)]), [[1.0, 0.5]],
                           lambda t: [math.exp(-a * lamf * t) * (math.cos(lamf * t) - 0.5 * math.sin(lamf * t)), math.exp(-a * lamf * t) * (math.sin(lamf * t) + 0.5 * math.cos(lamf * t))], 1.0 / lamf)
    out["harmonic2"] = (1, 2, alphabets.tensor(1, 2, [(0, [1], -1.0)]), [[0.5], [1.0]], lambda t: [0.5 * math.cos(t) + math.sin(t)], 1.0)
    return out


def enumerate_cases(tier, seed):
    quick = tier == "quick"
    cases = []
    pnames = sorted(problems())
    nus = [3, 5] if quick else [2, 3, 4, 5, 6]
    for ssm, calib, lin in itertools.product(("dense", "isotropic", "blockdiag"), ("none", "mle", "dynamic"), ("ts0", "ts1")):
        for strat in ("filter", "fixedpoint"):
            if quick and strat == "fixedpoint" and ssm != "dense":
                continue
            for nu in nus:
                cases.append(dict(id=f"adaptive/{ssm}/{calib}/{strat}/{lin}/nu{nu}", group=f"a/{ssm}/{calib}/{nu}", part="adaptive", ssm=ssm, calib=calib, strategy=strat, lin=lin, nu=nu, tier=tier,
                                  seed=seed, weight=120))
        for strat in ("filter", "fixedinterval"):
            for nu in ([2, 4] if quick else nus):
                cases.append(dict(id=f"order/{ssm}/{calib}/{strat}/{lin}/nu{nu}", group=f"o/{ssm}/{calib}/{nu}", part="order", ssm=ssm, calib=calib, strategy=strat, lin=lin, nu=nu, tier=tier, seed=seed, weight=60))
    for ssm, calib in itertools.product(("dense", "isotropic", "blockdiag"), ("none", "mle", "dynamic")):
        cases.append(dict(id=f"remainder/{ssm}/{calib}", group=f"r/{ssm}", part="remainder", ssm=ssm, calib=calib, strategy="filter", lin="ts1" if ssm == "dense" else "ts0", nu=4, tier=tier, seed=seed, weight=150))
    return cases


def describe(tier, seed):
    quick = tier == "quick"
    return dict(
        rule="case = (part, factorisation, calibration, strategy, linearisation, nu); adaptive: problems x tolerances x layouts x dt0 x clip; remainder: problems x tolerance x remainders x clip; "
             "order: problems x 4 refinement levels; non-trivial = nonlinear or time-dependent problem",
        exhaustive=True,
        alphabets=dict(problems=sorted(problems()), tolerances=[1e-3, 1e-6] if quick else [1e-2, 1e-4, 1e-7], layouts=["[t0,t1]", "7 equispaced", "irregular with two points 3 eps apart"],
                       dt0=[1e-4, 0.1, 10.0], clip=[False, True], remainders=[0.0, 1e-13, 0.5e-8, 2e-8, 1e-6, 1e-3], nu=[3, 5] if quick else [2, 3, 4, 5, 6]),
        bounds=dict(C=CBOUND, slope_margin=SLOPE_MARGIN, max_steps=5000),
        assumptions=["the tolerance multiple C = 30 is a fixed constant; the evidence records the worst observed ratio"],
    )


def run_cases(cases):
    from mc import jaxenv

    jaxenv.setup()
    for case in cases:
        fn = {"adaptive": _run_adaptive, "order": _run_order, "remainder": _run_remainder}[case["part"]]
        yield core.guarded(case, fn)


def _build(case, C, d, m, q):
    """(prior factory, solver, error) inside a traced function."""
    from probdiffeq import probdiffeq

    from mc import impl

    cfg = dict(ssm=case["ssm"], calib=case["calib"], relin=False, lin=case["lin"], m=m, strategy=case["strategy"], init="exact")
    ssm = impl.SSM[case["ssm"]]()
    con = impl.make_constraint(ssm, C, m, case["lin"])
    solver = impl.make_solver(cfg, con)
    err = probdiffeq.error_residual_std(constraint=con)
    return cfg, ssm, solver, err


def _tcoeffs(C, d, m, q, inits):
    from fractions import Fraction

    from mc.refmodel import series

    ders = series.ode_taylor(series.terms_from_tensor(C), d, m, [[Fraction(float(v)) for v in row] for row in inits], Fraction(0), q + 1 - m)
    return np.array([[float(v) for v in row] for row in ders[: q + 1]])


def _run_adaptive(case):
    import jax
    import jax.numpy as jnp
    from probdiffeq import ivpsolve

    from mc import impl

    tier = case["tier"]
    quick = tier == "quick"
    nu = case["nu"]
    q = nu - 1
    tols = [1e-3, 1e-6] if quick else [1e-2, 1e-4, 1e-7]
    fails = []
    worst = 0.0
    n = 0
    sample = None
    eps = 1e-8
    plist = sorted(problems().items())
    if quick:
        # the quick tier runs three of the six problems per configuration (which three depends on the configuration and VERIF_SEED);
        # the thorough tier runs all
        off = (sum(map(ord, case["id"])) + case["seed"]) % 2
        plist = plist[off::2]
    for pname, (d, m, C, inits, truth, t1) in plist:
        if q < m:
            continue
        tc = _tcoeffs(C, d, m, q, inits)
        zero_scale_dt0 = set()
        if case["calib"] == "dynamic":
            # input condition of known finding F10: the residual of the very first attempt is exactly zero in floating point
            cfg0, ssm0, solver0, err0 = _build(case, jnp.asarray(C), d, m, q)
            prior0 = impl.make_prior(cfg0, ssm0, jnp.asarray(tc), jnp.ones(d))
            s0 = solver0.init(0.0, prior0, damp=0.0)
            for dt0_ in (1e-4, 0.1, 10.0):
                s1 = solver0.step(s0, dt=dt0_, damp=0.0)
                if float(jnp.min(jnp.abs(jnp.atleast_1d(s1.output_scale)))) == 0.0:
                    zero_scale_dt0.add(dt0_)
        layouts = {"ends": [0.0, t1], "equi7": list(np.linspace(0.0, t1, 7)), "irregular": [0.0, 0.1 * t1, 0.1 * t1 + 3 * eps, 0.37 * t1, 0.9 * t1, t1]}
        progs = {}
        for lname, save_at in layouts.items():
            for clip in (False, True):
                def run(Cj, tcj, sa, tol, dt0, clip=clip):
                    cfg, ssm, solver, err = _build(case, Cj, d, m, q)
                    prior = impl.make_prior(cfg, ssm, tcj, jnp.ones(d))
                    sol = ivpsolve.solve_adaptive_save_at(solver=solver, error=err, clip_dt=clip, warn=False)(prior, save_at=sa, atol=tol, rtol=tol, dt0=dt0, eps=eps)
                    return sol.u.mean[0], sol.t, sol.num_steps, jax.tree.leaves(sol.u.std)[0]

                progs[(lname, clip)] = jax.jit(run)
        for tol in tols:
            # only tolerances that need <= 5000 steps at this order (rough a-priori rule: steps ~ tol^(-1/nu))
            if tol ** (-1.0 / nu) * 3 > 5000:
                continue
            for (lname, clip), prog in progs.items():
                for dt0 in ((0.1,) if ((quick and lname != "ends") or (not quick and lname == "equi7")) else (1e-4, 0.1, 10.0)):
                    save_at = layouts[lname]
                    mean, ts, ns, std = prog(jnp.asarray(C), jnp.asarray(tc), jnp.asarray(save_at), tol, dt0)
                    mean, ts, std = np.asarray(mean), np.asarray(ts), np.asarray(std)
                    n += 1
                    tag = f"{pname} tol={tol} layout={lname} clip={clip} dt0={dt0}"
                    # a clipped step many orders of magnitude smaller than its predecessor (checkpoints 3 eps apart, clip_dt=True) is its
                    # own failure kind: known finding F9
                    sfx = f"[clip_dt=True,layout={lname}]" if (clip and lname != "ends") else ""
                    if dt0 in zero_scale_dt0:
                        sfx = "[dynamic_scale_exactly_zero_at_first_attempt]"
                    if not (np.all(np.isfinite(mean)) and np.all(np.isfinite(std))):
                        fails.append(core.fail("nonfinite_output" + sfx, f"{tag}: mean {mean[-1]} std {std[-1]}"))
                        continue
                    if len(ts) != len(save_at) or np.max(np.abs(ts - np.asarray(save_at))) > eps:
                        fails.append(core.fail("reported_times", f"{tag}: {ts}"))
                        continue
                    ratio = 0.0
                    for k, t in enumerate(save_at):
                        u = np.asarray(truth(float(ts[k])))
                        ratio = max(ratio, float(np.max(np.abs(mean[k].reshape(-1) - u) / (tol + tol * np.abs(u)))))
                    if not sfx:
                        worst = max(worst, ratio / CBOUND)
                    if not ratio <= CBOUND:
                        fails.append(core.fail("tolerance_not_met" + sfx, f"{tag}: error / (atol + rtol |u|) = {ratio:.3g} > {CBOUND} (steps {int(np.asarray(ns)[-1])})"))
                    if sample is None:
                        sample = dict(tag=tag, ratio=ratio, num_steps=int(np.asarray(ns)[-1]))
            if len(fails) > 8:
                break
        if len(fails) > 8:
            break
    seen = {}
    for f in fails:
        seen.setdefault(f["kind"], f)
    return core.result(case, list(seen.values()), transitions=n, traces=n, states=n, outcome="ok" if not fails else "|".join(sorted(seen)), dev=worst, sample=sample, worst_ratio=worst * CBOUND)


def _run_remainder(case):
    """Final time = natural step end + tiny remainder."""
    import jax
    import jax.numpy as jnp
    from probdiffeq import ivpsolve, probdiffeq
    from probdiffeq.util import test_util

    from mc import impl

    nu = case["nu"]
    q = nu - 1
    fails = []
    worst = 0.0
    n = 0
    sample = None
    eps = 1e-8
    for pname in ("logistic", "gauss_t", "rotdamp"):
        d, m, C, inits, truth, t1 = problems()[pname]
        tc = _tcoeffs(C, d, m, q, inits)
        for tol in (1e-4,) if case["tier"] == "quick" else (1e-3, 1e-5, 1e-7):
            Cj, tcj = jnp.asarray(C), jnp.asarray(tc)
            cfg, ssm, solver, err = _build(case, Cj, d, m, q)
            prior = impl.make_prior(cfg, ssm, tcj, jnp.ones(d))
            steps = test_util.solve_adaptive_save_every_step(solver, err)(prior, 0.0, 0.8, atol=tol, rtol=tol, dt0=0.1)
            ends = [float(x) for x in np.asarray(steps.t)[1:-1]]
            if len(ends) < 2:
                continue
            tk = ends[len(ends) // 2]
            for clip in (False, True):
                def run(sa_t1, clip=clip):
                    cfg2, ssm2, solver2, err2 = _build(case, Cj, d, m, q)
                    prior2 = impl.make_prior(cfg2, ssm2, tcj, jnp.ones(d))
                    sol = ivpsolve.solve_adaptive_terminal_values(solver=solver2, error=err2, clip_dt=clip)(prior2, t0=0.0, t1=sa_t1, atol=tol, rtol=tol, dt0=0.1, eps=eps)
                    return sol.u.mean[0], sol.t, jax.tree.leaves(sol.u.std)[0], sol.num_steps

                prog = jax.jit(run)
                for r in (0.0, 1e-13, eps / 2, 2 * eps, 1e-6, 1e-3):
                    mean, t, std, ns = prog(tk + r)
                    mean, std = np.asarray(mean).reshape(-1), np.asarray(std).reshape(-1)
                    n += 1
                    tag = f"{pname} tol={tol} clip={clip} t1 = step end {tk!r} + {r}"
                    sfx = f"[clip_dt=True,remainder={r}]" if (clip and eps < r <= 1e-6) else ""
                    if not (np.all(np.isfinite(mean)) and np.all(np.isfinite(std))):
                        fails.append(core.fail("nonfinite_output" + sfx, f"{tag}: mean {mean} std {std}"))
                        continue
                    if abs(float(t) - (tk + r)) > eps:
                        fails.append(core.fail("reported_times", f"{tag}: reported {float(t)!r}"))
                    u = np.asarray(truth(float(t)))
                    ratio = float(np.max(np.abs(mean - u) / (tol + tol * np.abs(u))))
                    if not sfx:
                        worst = max(worst, ratio / CBOUND)
                    if not ratio <= CBOUND:
                        fails.append(core.fail("tolerance_not_met" + sfx, f"{tag}: ratio {ratio:.3g} (steps {int(ns)})"))
                    if sample is None:
                        sample = dict(tag=tag, ratio=ratio, num_steps=int(ns))
    seen = {}
    for f in fails:
        seen.setdefault(f["kind"], f)
    return core.result(case, list(seen.values()), transitions=n, traces=n, states=n, outcome="ok" if not fails else "|".join(sorted(seen)), dev=worst, sample=sample, worst_ratio=worst * CBOUND)


def _run_order(case):
    import jax.numpy as jnp

    from mc import impl

    nu = case["nu"]
    q = nu - 1
    fails = []
    n = 0
    worst = 0.0
    sample = None
    slopes = {}
    for pname, (d, m, C, inits, truth, t1) in sorted(problems().items()):
        if q < m:
            continue
        tc = _tcoeffs(C, d, m, q, inits)
        cfg = dict(ssm=case["ssm"], calib=case["calib"], relin=False, lin=case["lin"], m=m, strategy=case["strategy"], init="exact")
        # choose the coarsest step so that errors lie in [1e-11, 1e-2]: start from N0 steps depending on nu
        N0 = {2: 32, 3: 16, 4: 16, 5: 16, 6: 8, 7: 8}[nu]
        errs, hs = [], []
        for lev in range(4):
            N = N0 * 2 ** lev
            grid = np.linspace(0.0, t1, N + 1)
            prog = impl.fixed_grid_program(impl.cfg_key(cfg))
            out = prog(jnp.asarray(C), jnp.asarray(grid), jnp.asarray(tc), jnp.ones(d), 0.0)
            mean = np.asarray(out["mean"])[:, :d]
            n += 1
            if not np.all(np.isfinite(mean)):
                fails.append(core.fail("nonfinite_output", f"{pname} N={N}"))
                break
            e = max(float(np.max(np.abs(mean[k] - np.asarray(truth(float(grid[k])))))) for k in range(N + 1))
            errs.append(e)
            hs.append(t1 / N)
        if len(errs) < 4:
            continue
        usable = [(h, e) for h, e in zip(hs, errs) if e > 1e-12][-3:]  # the three finest levels above the rounding level (asymptotic regime)
        if len(usable) < 3:
            continue  # already at rounding level: no order information
        lh, le = np.log([u[0] for u in usable]), np.log([u[1] for u in usable])
        # observed order: regression over the three finest usable levels, or the slope between the two finest if that is larger (for
        # nu >= 5 the window between the pre-asymptotic coarse grids and the rounding level is only three levels wide, and the
        # regression is then dominated by the pre-asymptotic level)
        slope = max(float(np.polyfit(lh, le, 1)[0]), float((le[-2] - le[-1]) / (lh[-2] - lh[-1])))
        slopes[pname] = round(slope, 2)
        if m == 1:
            worst = max(worst, (nu - SLOPE_MARGIN) / max(slope, 1e-9))
        if not slope >= nu - SLOPE_MARGIN:
            fails.append(core.fail("convergence_order_too_low" + ("[second_order_ode]" if m == 2 else ""), f"{pname}: observed order {slope:.2f} < {nu} - {SLOPE_MARGIN}; errors {['%.2e' % e for e in errs]} at h = {hs}"))
        if sample is None:
            sample = dict(problem=pname, errors=errs, observed_order=slope)
    seen = {}
    for f in fails:
        seen.setdefault(f["kind"], f)
    return core.result(case, list(seen.values()), transitions=n, traces=n, states=n, outcome="ok" if not fails else "|".join(sorted(seen)), dev=worst, sample=sample, observed_orders=slopes)


def merge_coverage(results):
    wr = max([r.get("worst_ratio", 0.0) or 0.0 for r in results] + [0.0])
    orders = {}
    for r in results:
        for k, v in (r.get("observed_orders") or {}).items():
            orders.setdefault(k, []).append(v)
    return dict(worst_error_over_tolerance_ratio=wr, tolerance_multiple_C=CBOUND, min_observed_order_minus_nu_by_problem={k: min(v) for k, v in orders.items()})
