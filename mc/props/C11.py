"""C11 - jet-lifting and constraint constructors differentiate constraints exactly.

lift     JetOde.jet_lift / jet_lift_max and JetResidual.jet_lift / jet_lift_max for polynomial right-hand sides /
         residuals of differential order 0..2 in (u, u', u'', t), lift orders 0..5, ALL lift_by in {-1..K+1}
         (admissible and inadmissible) for K supplied coefficients: outputs must be the 0th..m-th total time
         derivatives along the curve (exact rational power-series reference); inadmissible orders raise ValueError;
         output-index bookkeeping.
constr   constraint_ode_ts1(ode) == constraint_residual(u^(k) - f); residual_from_stack evaluates each part on its own
         coefficients; every linearised constraint (TS0 / TS1 / residual, lifted or not, three factorisations)
         satisfies A xi + b = f(xi) with A the exact Jacobian in the documented structure.
"""

import itertools
from fractions import Fraction

import numpy as np

from mc import alphabets, core

LEVEL = "model_checking"
ENGINE = "E2 xprod over programs"
TECHNIQUE = "exhaustive enumeration of polynomial right-hand sides/residuals x lift orders x all lift_by values x coefficient palettes x factorisations on the real jet_lift / constraint constructors / linearize, against exact rational total derivatives and exact Jacobians"
LEVEL_TEXT = "Every program of the enumerated family is lifted by every order (admissible and not) and compared with exact rational total time derivatives; every linearisation is compared with the exact value and the exact structured Jacobian."
LEVEL_NOTE = "Trusted: Fraction power-series arithmetic. Relative tolerance 1e-10."
TIMEOUT_S = {"quick": 1200, "thorough": 7200}


def _coeffs(d, n, pal):
    """Arbitrary rational Taylor coefficients (not a solution of anything): n coefficients of dimension d."""
    out = []
    for j in range(n):
        out.append([Fraction((-1) ** (j + k) * (2 * j + 3 + k + pal), 8 * (1 + (j + pal) % 3)) for k in range(d)])
    return out


def residuals(d, nb, tier):
    """Polynomial expressions g(u,..,u^(nb-1), t) with d outputs: name -> tensor."""
    t = nb * d + 1
    out = {}
    if d == 1:
        vars_ = list(range(1, nb + 1)) + [t]
        monos = [()]
        for deg in (1, 2, 3):
            monos += list(itertools.combinations_with_replacement(vars_, deg))
        if tier == "quick":
            monos = monos[:: max(1, len(monos) // 8)]
        for i, mo in enumerate(monos):
            out["mono:" + ("".join(map(str, mo)) or "1")] = alphabets.tensor(1, nb, [(0, list(mo), 1.0 if i % 2 else -0.5)])
        out["mix"] = alphabets.tensor(1, nb, [(0, [nb, nb], 1.0), (0, [t, t, 1], 1.0), (0, [t], 1.0), (0, [1, nb, t], -0.5)])
    else:
        a, b = 1, 2
        last = (nb - 1) * d
        out["coupled"] = alphabets.tensor(2, nb, [(0, [a, b], 1.0), (0, [t, last + 1], -1.0), (0, [t, t], 0.5), (1, [last + 2, last + 2, a], 0.25), (1, [b], -0.5), (1, [t], 1.0)])
        out["cross"] = alphabets.tensor(2, nb, [(0, [last + 2], 1.0), (0, [a, a, t], -0.5), (1, [last + 1, b], 0.5), (1, [], 1.0)])
    return out


def enumerate_cases(tier, seed):
    quick = tier == "quick"
    cases = []
    for kind in ("ode", "residual"):
        for d, nb in itertools.product((1, 2), (1, 2) if kind == "ode" else (1, 2, 3)):
            for lift in (range(0, 4) if quick else range(0, 6)):
                cases.append(dict(id=f"lift/{kind}/d{d}/order{nb}/lift{lift}", group=f"lift/{kind}/{d}{nb}", part="lift", kind=kind, d=d, nb=nb, lift=lift, tier=tier, seed=seed, weight=30 + 10 * lift))
    for ssm in ("dense", "isotropic", "blockdiag"):
        for d, m in ((1, 1), (2, 1), (1, 2), (2, 2)):
            for q in ((m, m + 2) if quick else (m, m + 1, m + 2, m + 4)):
                cases.append(dict(id=f"constr/{ssm}/d{d}m{m}/q{q}", group=f"constr/{ssm}", part="constr", ssm=ssm, d=d, m=m, q=q, tier=tier, seed=seed, weight=40))
    cases.append(dict(id="stack", group="stack", part="stack", tier=tier, seed=seed, weight=10))
    return cases


def describe(tier, seed):
    return dict(
        rule="lift part: case = (kind, d, differential order, lift order); inside every expression of the family x every lift_by in {-1..K+1} x coefficient palette x t0; "
             "constr part: case = (factorisation, d, ODE order, q); inside every field x {TS0, TS1, residual, jet-lifted-max variants}; non-trivial = time-dependent or nonlinear expression with lift >= 1",
        exhaustive=True,
        alphabets=dict(kinds=["ode", "residual"], d=[1, 2], differential_order=[0, 1, 2], lift=list(range(0, 4 if tier == "quick" else 6)), t0=[0.0, 0.7],
                       lift_by="all of -1..K+1 for K = supplied - needed coefficients"),
        bounds=dict(tolerance=1e-10),
        assumptions=["coefficients are arbitrary rationals (the lifted function must differentiate along any curve, not only along solutions)"],
    )


def run_cases(cases):
    from mc import jaxenv

    jaxenv.setup()
    for case in cases:
        fn = {"lift": _run_lift, "constr": _run_constr, "stack": _run_stack}[case["part"]]
        yield core.guarded(case, fn)


def _make_program(kind, C, d, nb):
    """The public object built from the coefficient tensor."""
    import jax.numpy as jnp
    from probdiffeq import probdiffeq

    from mc import impl

    Cj = jnp.asarray(C)
    jac = probdiffeq.jacobian_materialize()
    if kind == "ode":
        return impl.make_ode(Cj, nb)
    if nb == 1:
        return probdiffeq.residual_position(lambda u, *, t: impl.poly_eval(Cj, [u], t), jacobian=jac)
    if nb == 2:
        return probdiffeq.residual_velocity(lambda u, du, *, t: impl.poly_eval(Cj, [u, du], t), jacobian=jac)
    return probdiffeq.residual_acceleration(lambda u, du, ddu, *, t: impl.poly_eval(Cj, [u, du, ddu], t), jacobian=jac)


def _run_lift(case):
    import jax.numpy as jnp

    from mc.refmodel import series

    kind, d, nb, lift, tier = case["kind"], case["d"], case["nb"], case["lift"], case["tier"]
    fails = []
    worst = 0.0
    n = 0
    sample = None
    for name, C in sorted(residuals(d, nb, tier).items()):
        prog = _make_program(kind, C, d, nb)
        terms = series.terms_from_tensor(C)
        for t0 in (0.0, 0.7):
            K = lift  # number of extra coefficients supplied beyond the nb the expression needs
            coeffs = _coeffs(d, nb + K, case["seed"] % 3)
            jc = [jnp.asarray([float(v) for v in row]) for row in coeffs]
            for lift_by in range(-1, K + 2):
                tag = f"{name} t0={t0} supplied={nb + K} lift_by={lift_by}"
                n += 1
                try:
                    lifted = prog.jet_lift(lift_by=lift_by)
                    if kind == "ode":
                        out = lifted.vector_field(jet_coords=jc, t=t0)
                    else:
                        out = lifted.residual_function(jet_coords=jc, t=t0)
                    raised = None
                except ValueError as e:
                    raised = e
                admissible = 0 <= lift_by <= K
                if not admissible:
                    if raised is None:
                        fails.append(core.fail("inadmissible_lift_accepted", f"{tag}: returned {out}"))
                    continue
                if raised is not None:
                    fails.append(core.fail("admissible_lift_rejected", f"{tag}: {raised}"))
                    continue
                want = series.total_derivatives(terms, d, nb, d, coeffs, Fraction(float(t0)), lift_by)
                if len(out) != lift_by + 1:
                    fails.append(core.fail("number_of_outputs", f"{tag}: {len(out)}"))
                    continue
                for e, (g, w) in enumerate(zip(out, want)):
                    g = np.asarray(g, dtype=float).reshape(-1)
                    w = np.array([float(v) for v in w])
                    scale = max(np.max(np.abs(w)), 1.0)
                    dev = float(np.max(np.abs(g - w))) / scale if g.shape == w.shape else float("inf")
                    worst = max(worst, dev / 1e-10)
                    if not dev <= 1e-10:
                        fails.append(core.fail("lifted_derivative_value", f"{tag} derivative {e}: got {g} want {w}"))
                        break
                # bookkeeping
                if kind == "ode":
                    if list(lifted.tcoeff_indices_output) != [nb + i for i in range(lift_by + 1)] or lifted.num_tcoeffs_in_args != nb + lift_by:
                        fails.append(core.fail("lifted_ode_index_bookkeeping", f"{tag}: outputs {lifted.tcoeff_indices_output}, inputs {lifted.num_tcoeffs_in_args}"))
                elif lifted.num_tcoeffs_in_args != nb + lift_by:
                    fails.append(core.fail("lifted_residual_index_bookkeeping", f"{tag}: inputs {lifted.num_tcoeffs_in_args}"))
                if sample is None and lift_by >= 1:
                    sample = dict(expression=name, t0=t0, lift_by=lift_by, outputs=[[float(x) for x in np.asarray(o).reshape(-1)] for o in out])
            # jet_lift_max: lifts as far as the number of prior coefficients allows
            num_tc = nb + K + (1 if kind == "ode" else 0)
            lm = prog.jet_lift_max(num_tcoeffs=num_tc)
            want_in = nb + K
            if lm.num_tcoeffs_in_args != want_in:
                fails.append(core.fail("jet_lift_max_order", f"{name}: num_tcoeffs={num_tc} -> inputs {lm.num_tcoeffs_in_args}, expected {want_in}"))
            n += 1
        if len(fails) > 10:
            break
    seen = {}
    for f in fails:
        seen.setdefault(f["kind"], f)
    return core.result(case, list(seen.values()), transitions=n, traces=n, states=n, outcome="ok" if not fails else "|".join(sorted(seen)), dev=worst, sample=sample, nontrivial=lift >= 1)


def _dense_of_cond(ssm, cond, q, d):
    from mc.props import C08

    fac = C08.Factory(ssm, q + 1, d)
    A, b, Q, _, _ = fac.dense_cond(cond)
    return A, b, Q


def _run_constr(case):
    import jax.numpy as jnp
    from probdiffeq import probdiffeq

    from mc import impl
    from mc.refmodel import gauss, series

    ssm_name, d, m, q, tier = case["ssm"], case["d"], case["m"], case["q"], case["tier"]
    ssm = impl.SSM[ssm_name]()
    fails = []
    worst = 0.0
    n = 0
    sample = None
    for fname, C in sorted(alphabets.fields(d, m, "thorough").items()):
        Cj = jnp.asarray(C)
        ode = impl.make_ode(Cj, m)
        field = gauss.PolyField(C, d, m)
        coeffs = _coeffs(d, q + 1, case["seed"] % 3)
        tc = [jnp.asarray([float(v) for v in row]) for row in coeffs]
        mean_flat = np.array([float(v) for row in coeffs for v in row])
        prior = ssm.prior_wiener_integrated(tc, is_exact=False, inexact_eps=0.125)
        rv = prior.init
        for t0 in (0.0, 0.7):
            for lin in ("ts0", "ts1", "residual"):
                con = impl.make_constraint(ssm, Cj, m, lin)
                for damp in (0.0, 0.25):
                    cond, _ = con.linearize(rv, con.init_linearization(), damp=damp, t=t0)
                    A, b, Q = _dense_of_cond(ssm_name, cond, q, d) if False else _dense_cond_rect(ssm_name, cond, q, d)
                    st = "dense" if ssm_name == "dense" else ssm_name
                    H, bb = gauss.linearize_ode(field, gauss.M(mean_flat), gauss.mpf(t0), q, "ts0" if lin == "ts0" else "ts1", st)
                    Hf, bf = gauss.tofloat(H), np.array([float(v) for v in bb])
                    n += 1
                    tag = f"{fname} t0={t0} {lin} damp={damp}"
                    sc = max(np.max(np.abs(Hf)), np.max(np.abs(bf)), 1.0)
                    dev = max(np.max(np.abs(A - Hf)), np.max(np.abs(b - bf))) / sc if A.shape == Hf.shape else float("inf")
                    worst = max(worst, dev / 1e-10)
                    if not dev <= 1e-10:
                        fails.append(core.fail("linearisation_jacobian_or_offset", f"{tag}: deviation {dev:.2e}"))
                    # value at the linearisation point
                    val = A @ mean_flat + b
                    want = mean_flat[m * d:(m + 1) * d] - np.array([float(v) for v in field.value(gauss.M(mean_flat), gauss.mpf(t0))])
                    if not np.allclose(val, want, rtol=1e-10, atol=1e-12):
                        fails.append(core.fail("linearisation_value_at_point", f"{tag}: {val} vs {want}"))
                    if not np.allclose(Q, damp ** 2 * np.eye(d), rtol=1e-14, atol=0):
                        fails.append(core.fail("linearisation_noise", f"{tag}: {np.diag(Q)}"))
                    if sample is None and lin == "ts1":
                        sample = dict(field=fname, t0=t0, A_row0=[float(x) for x in A[0]])
            # constraint_ode_ts1(ode) is identical to constraint_residual(u^(m) - f)
            c1, _ = ssm.constraint_ode_ts1(ode).linearize(rv, ssm.constraint_ode_ts1(ode).init_linearization(), damp=0.25, t=t0)
            c2 = impl.make_constraint(ssm, Cj, m, "residual")
            c2, _ = c2.linearize(rv, c2.init_linearization(), damp=0.25, t=t0)
            A1, b1, Q1 = _dense_cond_rect(ssm_name, c1, q, d)
            A2, b2, Q2 = _dense_cond_rect(ssm_name, c2, q, d)
            if not (np.allclose(A1, A2, rtol=1e-13, atol=1e-15) and np.allclose(b1, b2, rtol=1e-13, atol=1e-15) and np.array_equal(Q1, Q2)):
                fails.append(core.fail("ts1_differs_from_residual_constraint", f"{fname} t0={t0}"))
            n += 1
            # jet-lifted (maximal) ODE constraints: every output row block k must be the k-th total derivative constraint
            if q > m:
                lifted = ode.jet_lift_max(num_tcoeffs=q + 1)
                conl = ssm.constraint_ode_ts0(lifted)
                cl, _ = conl.linearize(rv, conl.init_linearization(), damp=0.0, t=t0)
                A, b, Q = _dense_cond_rect(ssm_name, cl, q, d)
                terms = series.terms_from_tensor(C)
                wantd = series.total_derivatives(terms, d, m, d, coeffs, Fraction(float(t0)), q - m)
                val = A @ mean_flat + b
                want = np.concatenate([mean_flat[(m + e) * d:(m + e + 1) * d] - np.array([float(v) for v in wantd[e]]) for e in range(q - m + 1)])
                n += 1
                if val.shape != want.shape or not np.allclose(val, want, rtol=1e-10, atol=1e-10):
                    fails.append(core.fail("lifted_ts0_constraint_value", f"{fname} t0={t0}: {val} vs {want}"))
        if len(fails) > 10:
            break
    seen = {}
    for f in fails:
        seen.setdefault(f["kind"], f)
    return core.result(case, list(seen.values()), transitions=n, traces=n, states=n, outcome="ok" if not fails else "|".join(sorted(seen)), dev=worst, sample=sample)


def _dense_cond_rect(ssm, cond, q, d):
    """Dense (A, b, Q) of an observation conditional (k output coefficients, q+1 input coefficients), coefficient-major."""
    A, tl, to = np.asarray(cond.A), np.asarray(cond.to_latent), np.asarray(cond.to_observed)
    b, L = np.asarray(cond.noise.mean_flat), np.asarray(cond.noise.cholesky_flat)
    if ssm == "dense":
        return to[:, None] * A * tl[None, :], to * b, (np.abs(to)[:, None] * L) @ (np.abs(to)[:, None] * L).T
    if ssm == "isotropic":
        A1 = to[:, None] * A * tl[None, :]
        L1 = np.abs(to)[:, None] * L
        return np.kron(A1, np.eye(d)), (to[:, None] * b).reshape(-1), np.kron(L1 @ L1.T, np.eye(d))
    ko, ki = A.shape[1], A.shape[2]
    Ad, Qd, bd = np.zeros((ko * d, ki * d)), np.zeros((ko * d, ko * d)), np.zeros(ko * d)
    for j in range(d):
        io, ii = np.arange(ko) * d + j, np.arange(ki) * d + j
        Ad[np.ix_(io, ii)] = to[j][:, None] * A[j] * tl[j][None, :]
        L1 = np.abs(to[j])[:, None] * L[j]
        Qd[np.ix_(io, io)] = L1 @ L1.T
        bd[io] = to[j] * b[j]
    return Ad, bd, Qd


def _run_stack(case):
    """residual_from_stack evaluates each part on exactly its own coefficients: every part raises if it is handed
    more (or fewer) coefficients than it declares."""
    import jax.numpy as jnp
    from probdiffeq import probdiffeq

    fails = []
    n = 0
    seen_lengths = {}

    def part(k, tag):
        def fn(*, jet_coords, t):
            seen_lengths.setdefault(tag, []).append(len(jet_coords))
            if len(jet_coords) != k:
                raise AssertionError(f"part {tag} received {len(jet_coords)} coefficients, declared {k}")
            return [sum(jet_coords) * (1.0 + t)]

        return probdiffeq.JetResidual(fn, jacobian=probdiffeq.jacobian_materialize(), num_tcoeffs_in_args=k)

    for ks in itertools.permutations((1, 2, 3)):
        for extra in (0, 1, 2):
            parts = [part(k, f"p{k}") for k in ks]
            stacked = probdiffeq.residual_from_stack(*parts)
            n += 1
            if stacked.num_tcoeffs_in_args != 3:
                fails.append(core.fail("stack_num_args", f"{ks}: {stacked.num_tcoeffs_in_args}"))
            jc = [jnp.asarray([0.5 * (i + 1)]) for i in range(3 + extra)]
            try:
                out = stacked.residual_function(jet_coords=jc[:3], t=0.5)
                vals = [float(np.asarray(o[0]).reshape(-1)[0]) for o in out]
                want = [sum(0.5 * (i + 1) for i in range(k)) * 1.5 for k in ks]
                if not np.allclose(vals, want):
                    fails.append(core.fail("stack_values", f"{ks}: {vals} vs {want}"))
                # stacks of lifted parts (as in the repository's DAE example): each lifted part still evaluates the original
                # expression on exactly its declared coefficients
                if extra:
                    lifted_parts = [part(k, f"p{k}").jet_lift(lift_by=3 + extra - k) for k in ks]
                    st2 = probdiffeq.residual_from_stack(*lifted_parts)
                    if st2.num_tcoeffs_in_args != 3 + extra:
                        fails.append(core.fail("stack_num_args", f"{ks} lifted: {st2.num_tcoeffs_in_args}"))
                    out2 = st2.residual_function(jet_coords=jc, t=0.5)
                    if [len(o) for o in out2] != [3 + extra - k + 1 for k in ks]:
                        fails.append(core.fail("stack_lifted_outputs", f"{ks} extra={extra}: {[len(o) for o in out2]}"))
            except AssertionError as e:
                fails.append(core.fail("stack_part_sees_foreign_coefficients", f"{ks} extra={extra}: {e}"))
    seen = {}
    for f in fails:
        seen.setdefault(f["kind"], f)
    return core.result(case, list(seen.values()), transitions=n, traces=n, states=n, outcome="ok" if not fails else "|".join(sorted(seen)), sample=dict(permutations=6, extras=[0, 1, 2]))
