"""C14 - state-space factorisations agree wherever theory says they must (implementation against implementation).

ts0      nonlinear problems, TS0, default scales, nu = 2..7, all step sequences of the menu, three strategies,
         three calibration modes: dense == isotropic == blockdiag means (uncalibrated, MLE), covariances
         (uncalibrated); dense == isotropic completely (incl. output scales); mean_k sigma_k^2(blockdiag) == sigma^2(dense).
decoupled  f_k(u) = g_k(u_k): blockdiag TS1 == d independent scalar dense TS1 solves.
scalarjac  Jacobian c(t) I: isotropic TS1 == dense TS1.
adaptive   dense vs isotropic adaptive runs (real error estimator): identical step sequences, means, scales.
"""

import itertools

import numpy as np

from mc import alphabets, core

LEVEL = "model_checking"
ENGINE = "E2 xprod (differential)"
TECHNIQUE = "exhaustive product enumeration (problems x orders x all step sequences x strategies x calibration modes) with a differential oracle between the three factorisations (the equalities of the statement)"
LEVEL_TEXT = "Every combination is solved in all factorisations concerned and the equalities stated by the property are asserted in step-scaled coordinates."
LEVEL_NOTE = "Implementation-against-implementation (no reference model); tolerance 1e-8 x step-ratio amplification in step-scaled coordinates."
TIMEOUT_S = {"quick": 1500, "thorough": 7200}


def enumerate_cases(tier, seed):
    quick = tier == "quick"
    cases = []
    qs = [1, 2, 4, 6] if quick else [1, 2, 3, 4, 5, 6]
    for q, strat, calib in itertools.product(qs, ("filter", "fixedinterval"), ("none", "mle", "dynamic")):
        for (d, m) in ((2, 1), (3, 1), (2, 2)):
            if q < m:
                continue
            cases.append(dict(id=f"ts0/{strat}/{calib}/d{d}m{m}/q{q}", group=f"ts0/{d}{m}/{q}", part="ts0", strategy=strat, calib=calib, d=d, m=m, q=q, tier=tier, seed=seed, weight=40 + 10 * q))
    for q, strat, calib in itertools.product([1, 2, 4] if quick else qs, ("filter", "fixedinterval"), ("none", "mle", "dynamic")):
        cases.append(dict(id=f"decoupled/{strat}/{calib}/q{q}", group=f"dec/{q}", part="decoupled", strategy=strat, calib=calib, d=3, m=1, q=q, tier=tier, seed=seed, weight=40))
        cases.append(dict(id=f"scalarjac/{strat}/{calib}/q{q}", group=f"sj/{q}", part="scalarjac", strategy=strat, calib=calib, d=2, m=1, q=q, tier=tier, seed=seed, weight=40))
    # adaptive: the error estimate (either estimator, either error norm) must coincide too, so that the step sequences coincide
    for strat, calib, lin in itertools.product(("filter", "fixedpoint"), ("none", "mle", "dynamic"), ("ts0",)):
        for est in ("residual/scale_then_rms", "residual/rms_then_scale", "state1/scale_then_rms", "state0/rms_then_scale"):
            for d in ((2,) if quick else (2, 3)):
                if quick and est.startswith("state") and (strat, calib) not in (("filter", "none"), ("fixedpoint", "mle"), ("filter", "dynamic")):
                    continue
                cases.append(dict(id=f"adaptive/{strat}/{calib}/{lin}/{est}/d{d}", group=f"adaptive/{d}/{strat}/{calib}/{est}", part="adaptive", strategy=strat, calib=calib, lin=lin, est=est, d=d, m=1, q=3, tier=tier, seed=seed, weight=80))
    return cases


def describe(tier, seed):
    return dict(
        rule="case = (part, strategy, calibration, problem, q); inside: every field of the catalogue x every admissible grid (all step sequences of length 3 over the menu); non-trivial = all",
        exhaustive=True,
        alphabets=dict(q=[1, 2, 4, 6] if tier == "quick" else [1, 2, 3, 4, 5, 6], strategies=["filter", "fixedinterval", "fixedpoint (adaptive)"], calibration=["none", "mle", "dynamic"],
                       steps=[2.0 ** -7, 0.125, 0.5]),
        bounds=dict(tolerance=1e-8),
        assumptions=["default (unit) scales, exact initial state"],
    )


def run_cases(cases):
    from mc import jaxenv

    jaxenv.setup()
    for case in cases:
        fn = {"ts0": _run_ts0, "decoupled": _run_decoupled, "scalarjac": _run_scalarjac, "adaptive": _run_adaptive}[case["part"]]
        yield core.guarded(case, fn)


def _solve(ssm, case, C, tc, grid, lin, d=None, m=None):
    import jax.numpy as jnp

    from mc import impl

    cfg = dict(ssm=ssm, calib=case["calib"], relin=False, lin=lin, m=case["m"] if m is None else m, strategy=case["strategy"], init="exact")
    prog = impl.fixed_grid_program(impl.cfg_key(cfg))
    out = prog(jnp.asarray(C), jnp.asarray(grid), jnp.asarray(tc), jnp.ones(C.shape[0]), 0.0)
    return {k: np.asarray(v) for k, v in out.items() if k in ("mean", "cov", "output_scale")}


def _dev(a, b, q, d, grid, what):
    """Scaled deviation between two solutions (mean or cov) over all grid points."""
    from mc.refmodel import gauss

    worst = 0.0
    hs = np.diff(grid)
    for k in range(len(grid)):
        W = np.array([float(w) for w in gauss.taylor_scaling(q, d, hs[max(k - 1, 0)])])
        sd = np.sqrt(np.clip(np.diag(b["cov"][k]), 0, None)) * W
        if what == "mean":
            sc = np.abs(b["mean"][k] * W) + sd + 1e-4 * max(np.max(np.abs(b["mean"][k] * W)), 1e-300)
            worst = max(worst, float(np.max(np.abs((a["mean"][k] - b["mean"][k]) * W) / sc)))
        else:
            sc = np.outer(sd, sd) + 1e-4 * max(np.max(sd) ** 2, 1e-300)
            worst = max(worst, float(np.max(np.abs((a["cov"][k] - b["cov"][k]) * np.outer(W, W)) / sc)))
    return worst


def _grids(q, tier, calib="none"):
    from mc import compare

    gs = alphabets.grids([2.0 ** -7, 0.125, 0.5], [3])
    gs = [g for g in gs if (max(np.diff(g)) / min(np.diff(g))) ** q <= compare.AMP_MAX]
    if calib != "none":
        # a-priori conditioning rule: with the exact Taylor coefficients as initial mean the residual is O(h^q) of its terms, and an
        # estimated scale inherits that cancellation (rounding ~1e-16 / h^q); calibrated modes are compared on grids with h_min^q >= 1e-4
        gs = [g for g in gs if min(np.diff(g)) ** q >= 1e-4]
    return gs


def _allowed(grid, q):
    return 1e-8 * float((max(np.diff(grid)) / min(np.diff(grid))) ** q)


def _run_ts0(case):
    from mc import ssmcheck

    d, m, q, tier = case["d"], case["m"], case["q"], case["tier"]
    fails = []
    worst = 0.0
    n = 0
    sample = None
    for fname, C in sorted(alphabets.fields(d, m, "thorough").items()):
        tc = ssmcheck.mean0(C, d, m, q, 0)
        for grid in _grids(q, tier, case["calib"]):
            sols = {s: _solve(s, case, C, tc, grid, "ts0") for s in ("dense", "isotropic", "blockdiag")}
            n += 3
            al = _allowed(grid, q)
            tag = f"{fname} grid={grid}"
            # dense == isotropic completely
            for what in ("mean", "cov"):
                dv = _dev(sols["isotropic"], sols["dense"], q, d, grid, what)
                worst = max(worst, dv / al)
                if not dv <= al:
                    fails.append(core.fail(f"isotropic_vs_dense_{what}", f"{tag}: {dv:.2e}"))
            so, sd_ = sols["isotropic"]["output_scale"], sols["dense"]["output_scale"]
            if so.shape != sd_.shape or not np.allclose(so, sd_, rtol=1e-7 * max(1.0, al / 1e-8), atol=0):
                fails.append(core.fail("isotropic_vs_dense_output_scale", f"{tag}: {so[-1]} vs {sd_[-1]}"))
            if case["calib"] in ("none", "mle"):
                dv = _dev(sols["blockdiag"], sols["dense"], q, d, grid, "mean")
                worst = max(worst, dv / al)
                if not dv <= al:
                    fails.append(core.fail("blockdiag_vs_dense_mean", f"{tag}: {dv:.2e}"))
            if case["calib"] == "none":
                dv = _dev(sols["blockdiag"], sols["dense"], q, d, grid, "cov")
                worst = max(worst, dv / al)
                if not dv <= al:
                    fails.append(core.fail("blockdiag_vs_dense_cov", f"{tag}: {dv:.2e}"))
            if case["calib"] == "mle":
                sb = sols["blockdiag"]["output_scale"][-1]
                sdn = sols["dense"]["output_scale"][-1]
                if not abs(np.mean(sb ** 2) - sdn ** 2) <= 1e-7 * max(1.0, al / 1e-8) * sdn ** 2:
                    fails.append(core.fail("blockdiag_mle_scale_split", f"{tag}: mean_k sigma_k^2 = {np.mean(sb ** 2)} vs sigma^2 = {sdn ** 2}"))
            if sample is None:
                sample = dict(field=fname, grid=grid, dense_scale=[float(x) for x in np.atleast_1d(sd_[-1])])
            if len(fails) > 8:
                break
        if len(fails) > 8:
            break
    seen = {}
    for f in fails:
        seen.setdefault(f["kind"], f)
    return core.result(case, list(seen.values()), transitions=n, traces=n // 3, states=n // 3, outcome="ok" if not fails else "|".join(sorted(seen)), dev=worst, sample=sample)


def _run_decoupled(case):
    """blockdiag TS1 on a componentwise-decoupled problem == d independent scalar dense TS1 solves."""
    from mc import ssmcheck

    q, tier = case["q"], case["tier"]
    d = 3
    C = alphabets.fields(3, 1, "thorough")["decoupled"]
    tc = ssmcheck.mean0(C, 3, 1, q, 0)
    # scalar sub-problems: tensors over z = (1, u, t)
    subs = []
    for k in range(d):
        Ck = np.zeros((1, 3, 3, 3))
        idx = [0, 1 + k, 4]
        for a, ia in enumerate(idx):
            for b, ib in enumerate(idx):
                for c, ic in enumerate(idx):
                    Ck[0, a, b, c] = C[k, ia, ib, ic]
        subs.append(Ck)
    fails = []
    worst = 0.0
    n = 0
    for grid in _grids(q, tier, case["calib"]):
        bd = _solve("blockdiag", case, C, tc, grid, "ts1")
        al = _allowed(grid, q)
        n += 1
        for k in range(d):
            sk = _solve("dense", case, subs[k], tc[:, k:k + 1], grid, "ts1")
            sel = np.arange(q + 1) * d + k
            part = dict(mean=bd["mean"][:, sel], cov=bd["cov"][:, sel][:, :, sel])
            for what in ("mean", "cov"):
                dv = _dev(part, sk, q, 1, grid, what)
                worst = max(worst, dv / al)
                if not dv <= al:
                    fails.append(core.fail(f"blockdiag_ts1_vs_scalar_dense_{what}", f"grid={grid} component {k}: {dv:.2e}"))
            sb = np.asarray(bd["output_scale"])
            if case["calib"] != "none":
                a, b = sb[-1][k], np.atleast_1d(sk["output_scale"][-1])[0]
                if not abs(a - b) <= 1e-7 * max(1.0, al / 1e-8) * abs(b):
                    fails.append(core.fail("blockdiag_ts1_vs_scalar_dense_scale", f"grid={grid} component {k}: {a} vs {b}"))
        if len(fails) > 8:
            break
    seen = {}
    for f in fails:
        seen.setdefault(f["kind"], f)
    return core.result(case, list(seen.values()), transitions=n * 4, traces=n, states=n, outcome="ok" if not fails else "|".join(sorted(seen)), dev=worst, sample=dict(field="decoupled"))


def _run_scalarjac(case):
    """Jacobian a multiple of the identity (f(u, t) = (c0 + c1 t) u + g(t)): isotropic TS1 == dense TS1."""
    from mc import ssmcheck

    q, tier = case["q"], case["tier"]
    d = 2
    t = alphabets.T(2, 1)
    C = alphabets.tensor(2, 1, [(0, [1], -0.5), (1, [2], -0.5), (0, [1, t], 0.75), (1, [2, t], 0.75), (0, [t, t], 1.0), (1, [], 0.5), (1, [t], -1.0)])
    tc = ssmcheck.mean0(C, 2, 1, q, 0)
    fails = []
    worst = 0.0
    n = 0
    for grid in _grids(q, tier, case["calib"]):
        a = _solve("isotropic", case, C, tc, grid, "ts1")
        b = _solve("dense", case, C, tc, grid, "ts1")
        al = _allowed(grid, q)
        n += 1
        for what in ("mean", "cov"):
            dv = _dev(a, b, q, d, grid, what)
            worst = max(worst, dv / al)
            if not dv <= al:
                fails.append(core.fail(f"isotropic_ts1_vs_dense_ts1_{what}", f"grid={grid}: {dv:.2e}"))
        if not np.allclose(a["output_scale"], b["output_scale"], rtol=1e-7 * max(1.0, al / 1e-8), atol=0):
            fails.append(core.fail("isotropic_ts1_vs_dense_ts1_scale", f"grid={grid}"))
        if len(fails) > 8:
            break
    seen = {}
    for f in fails:
        seen.setdefault(f["kind"], f)
    return core.result(case, list(seen.values()), transitions=n * 2, traces=n, states=n, outcome="ok" if not fails else "|".join(sorted(seen)), dev=worst, sample=dict(field="(c0 + c1 t) u + g(t)"))


def _run_adaptive(case):
    import jax
    import jax.numpy as jnp
    from probdiffeq import ivpsolve, probdiffeq

    from mc import impl, ssmcheck

    d, m, q = case["d"], case["m"], case["q"]
    fails = []
    n = 0
    sample = None
    for fname, C in sorted(alphabets.fields(d, m, "thorough").items()):
        tc = ssmcheck.mean0(C, d, m, q, 0)
        for tol, dt0 in ((1e-2, 0.5), (1e-4, 0.01), (1e-6, 0.1)):
            outs = {}
            for s in ("dense", "isotropic"):
                cfg = dict(ssm=s, calib=case["calib"], relin=False, lin=case["lin"], m=m, strategy=case["strategy"], init="exact")
                ssm = impl.SSM[s]()
                prior = impl.make_prior(cfg, ssm, jnp.asarray(tc), jnp.ones(d))
                con = impl.make_constraint(ssm, jnp.asarray(C), m, case["lin"])
                solver = impl.make_solver(cfg, con)
                ename, nname = case.get("est", "residual/scale_then_rms").split("/")
                nf = probdiffeq.error_norm_scale_then_rms() if nname == "scale_then_rms" else probdiffeq.error_norm_rms_then_scale()
                if ename == "residual":
                    err = probdiffeq.error_residual_std(constraint=con, error_norm=nf)
                else:
                    err = probdiffeq.error_state_std(constraint=con, error_norm=nf, derivative_idx=int(ename[-1]))
                sol = jax.jit(ivpsolve.solve_adaptive_save_at(solver=solver, error=err, warn=False))(prior, save_at=jnp.asarray([0.0, 0.3, 0.55, 1.0]), atol=tol, rtol=tol, dt0=dt0)
                mean, cov = sol.u.to_multivariate_normal()
                outs[s] = dict(mean=np.asarray(mean), cov=np.asarray(cov), n=np.asarray(sol.num_steps), scale=np.asarray(sol.output_scale), t=np.asarray(sol.t))
            n += 1
            a, b = outs["isotropic"], outs["dense"]
            tag = f"{fname} tol={tol} dt0={dt0}"
            if not np.array_equal(a["n"], b["n"]):
                fails.append(core.fail("adaptive_step_counts_differ", f"{tag}: {a['n']} vs {b['n']}"))
                continue
            sd = np.sqrt(np.abs(np.diagonal(b["cov"], axis1=1, axis2=2)))
            if not np.all(np.abs(a["mean"] - b["mean"]) <= 1e-7 * (np.abs(b["mean"]) + sd + 1e-12)):
                fails.append(core.fail("adaptive_means_differ", tag))
            if not np.allclose(a["scale"], b["scale"], rtol=1e-6, atol=0):
                fails.append(core.fail("adaptive_scales_differ", f"{tag}: {a['scale'][-1]} vs {b['scale'][-1]}"))
            if not np.all(np.abs(a["cov"] - b["cov"]) <= 1e-6 * (sd[:, :, None] * sd[:, None, :] + 1e-4 * np.max(sd, axis=1)[:, None, None] ** 2 + 1e-300)):
                fails.append(core.fail("adaptive_covs_differ", tag))
            if sample is None:
                sample = dict(tag=tag, num_steps=[int(x) for x in b["n"]])
    seen = {}
    for f in fails:
        seen.setdefault(f["kind"], f)
    return core.result(case, list(seen.values()), transitions=n * 2, traces=n, states=n, outcome="ok" if not fails else "|".join(sorted(seen)), sample=sample)
