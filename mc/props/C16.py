"""C16 - automatic derivatives equal the true derivatives of the computed outputs.

Lattice: parameter kinds {vector-field coefficient, initial value, prior base scale, observation-noise level} x
functionals {final mean, final std, output scale, time-series LML, terminal LML} x factorisations x calibration modes
x strategies x {TS0, TS1} on fixed grids, exact and inexact initial states; forward and reverse mode.
Oracle: finite; forward == reverse; both == Richardson-extrapolated central differences (accepted only where the
extrapolation has converged). The oracle is numerical, so the claim is agreement to 1e-6 relative, not exactness,
and the level is 'exploration'.

Attribution of known finding F6a (the custom JVP of qr_r treats Q as constant): a mismatch is attributed to it only if
the same case passes when the harness substitutes the exact QR derivative (counterfactual); therefore configurations in
which gains depend on the parameter are run on the full-rank sub-lattice (inexact initial state, damp > 0) where the
exact QR derivative exists.
"""

import itertools

import numpy as np

from mc import alphabets, core

LEVEL = "exploration"
ENGINE = "E2 xprod"
TECHNIQUE = "exhaustive product enumeration (parameter kinds x functionals x factorisations x calibration modes x strategies x linearisations x AD modes) with a Richardson finite-difference oracle and counterfactual attribution"
LEVEL_TEXT = "Every combination of the lattice is differentiated in forward and reverse mode and compared with converged Richardson central differences; agreement to 1e-6 relative is claimed, not exactness."
LEVEL_NOTE = "Oracle is numerical (finite differences): cases whose extrapolation does not converge to 1e-8 are counted as undecided, not as passes. Dynamic calibration with stop_gradient_through_calibration=False, with and without re_linearize_after_calibration."
TIMEOUT_S = {"quick": 1800, "thorough": 7200}
GRID = [0.0, 0.25, 0.375, 0.875]


def enumerate_cases(tier, seed):
    quick = tier == "quick"
    cases = []
    for ssm, calib, strat, lin in itertools.product(("dense", "isotropic", "blockdiag"), ("none", "mle", "dynamic", "dynamic_relin"), ("filter", "fixedinterval"), ("ts0", "ts1")):
        # dynamic_relin = solver_dynamic(re_linearize_after_calibration=True); both dynamic variants with stop_gradient_through_calibration=False
        if quick and strat == "fixedinterval" and ssm != "dense":
            continue
        if quick and calib == "dynamic_relin" and strat == "fixedinterval":
            continue
        for rank in ("fullrank", "exact"):
            if rank == "exact" and (lin == "ts1" or calib.startswith("dynamic")):
                # gains depend on the parameter (through the Jacobian / the per-step scale); attribution of such cases to the
                # qr_r rule needs the exact QR derivative, which only exists on the full-rank sub-lattice (see module docstring)
                continue
            cases.append(dict(id=f"{ssm}/{calib}/{strat}/{lin}/{rank}", group=f"{ssm}/{calib}", ssm=ssm, calib=calib, strategy=strat, lin=lin, rank=rank, tier=tier, part="solve", weight=60))
    for kernel in ("qr_r", "revert_conditional", "sum_of_sqrtm_factors"):
        cases.append(dict(id=f"kernel/{kernel}", group="kernel", part="kernel", kernel=kernel, tier=tier, weight=10))
    return cases


def describe(tier, seed):
    return dict(
        rule="case = (factorisation, calibration, strategy, linearisation, rank regime); inside: parameter kind x functional x {jacfwd, jacrev}; non-trivial = derivative not identically zero by structure",
        exhaustive=True,
        alphabets=dict(parameters=["vf coefficient", "initial value", "prior base scale", "noise level"], functionals=["final mean", "final std", "output scale", "lml timeseries", "lml terminal"],
                       modes=["jacfwd", "jacrev"], rank=["fullrank (inexact init, damp>0)", "exact (zero initial covariance, damp=0; TS0 only)"]),
        bounds=dict(relative_tolerance=1e-6, fd_convergence=1e-8),
        assumptions=["finite-difference oracle; undecided (non-converged) cases are reported separately"],
    )


def run_cases(cases):
    from mc import jaxenv

    jaxenv.setup()
    for case in cases:
        yield core.guarded(case, _run_solve if case["part"] == "solve" else _run_kernel)


def _functionals(case):
    """name -> function(params dict) -> scalar, built on the public API. params: theta, u0s, scale, noise."""
    import jax
    import jax.numpy as jnp
    from probdiffeq import ivpsolve, probdiffeq

    from mc import impl

    d, m, q = 2, 1, 2
    C0 = jnp.asarray(alphabets.fields(2, 1, "thorough")["lv_t"])
    C1 = jnp.zeros_like(C0).at[0, 1, 2, 0].set(0.0)
    # theta scales the bilinear term u0*u1 of component 0 and the t-term of component 1
    mask = (np.asarray(C0) != 0)
    C1 = jnp.asarray(np.where(mask, np.asarray(C0), 0.0) * np.array([[1.0], [0.5]]).reshape(2, 1, 1, 1))
    full = case["rank"] == "fullrank"
    damp = 2.0 ** -6 if full else 0.0

    def solve(p):
        C = C0 + (p["theta"] - 1.0) * C1
        ssm = impl.SSM[case["ssm"]]()
        ode = impl.make_ode(C, m)
        u0 = jnp.asarray([0.5, 0.25]) * p["u0s"]
        tc, _ = probdiffeq.jetexpand_ode_unroll(num=q)(ode, [u0], t=0.0)
        base = p["scale"] if case["ssm"] == "isotropic" else p["scale"] * jnp.asarray([1.0, 0.5])
        prior = ssm.prior_wiener_integrated(tc, is_exact=not full, inexact_eps=2.0 ** -4, output_scale=base)
        con = impl.make_constraint(ssm, C, m, case["lin"])
        cfg = dict(calib=case["calib"].split("_")[0], relin=case["calib"].endswith("_relin"), strategy=case["strategy"], stopgrad=False)
        solver = impl.make_solver(cfg, con)
        return ivpsolve.solve_fixed_grid(solver=solver)(prior, grid=jnp.asarray(GRID), damp=damp)

    def leaf0(tree):
        return jax.tree.leaves(tree)[0]

    F = {}
    F["final_mean"] = lambda p: jnp.sum(solve(p).u.mean[0][-1] * jnp.asarray([1.0, -0.5]))
    F["final_std"] = lambda p: jnp.sum(jnp.atleast_1d(leaf0(solve(p).u.std)[-1]))
    if case["tier"] != "quick":
        F["final_std_highest"] = lambda p: jnp.sum(jnp.atleast_1d(jax.tree.leaves(solve(p).u.std)[-1][-1]))
    if case["calib"] != "none":
        F["output_scale"] = lambda p: jnp.sum(jnp.atleast_1d(solve(p).output_scale[-1]))
    data = jnp.asarray([[0.5, 0.25], [0.6, 0.3], [0.7, 0.3], [1.0, 0.2]])

    def lml_term(p):
        sol = solve(p)
        marg = jax.tree.map(lambda s: s[-1], sol.u)
        std = p["noise"] if case["ssm"] == "isotropic" else p["noise"] * jnp.asarray([1.0, 2.0])
        return probdiffeq.loss_lml_terminal_values()(data[-1], marginals=marg, std=std)

    F["lml_terminal"] = lml_term
    if case["strategy"] != "filter":
        def lml_ts(p):
            sol = solve(p)
            std = p["noise"] * jnp.ones((4,)) if case["ssm"] == "isotropic" else p["noise"] * jnp.ones((4, 2)) * jnp.asarray([1.0, 2.0])
            return probdiffeq.loss_lml_timeseries()(data, posterior=sol.solution_full.posterior, std=std)

        F["lml_timeseries"] = lml_ts
    return F


P0 = dict(theta=1.0, u0s=1.0, scale=1.5, noise=0.3)


def _fd(f, name, h0):
    """Richardson-extrapolated central difference of f w.r.t. parameter `name`; returns (value, converged)."""
    def D(h):
        pp, pm = dict(P0), dict(P0)
        pp[name] = P0[name] + h
        pm[name] = P0[name] - h
        return (float(f(pp)) - float(f(pm))) / (2 * h)

    d1, d2, d3 = D(h0), D(h0 / 2), D(h0 / 4)
    r1, r2 = (4 * d2 - d1) / 3, (4 * d3 - d2) / 3
    ok = abs(r1 - r2) <= 1e-8 * (abs(r2) + 1e-3)
    return r2, ok


def _run_solve(case):
    import jax
    import jax.numpy as jnp
    import probdiffeq.backend.linalg as plinalg

    F = _functionals(case)
    fails = []
    n = 0
    undecided = 0
    worst = 0.0
    sample = None
    names = list(P0)
    v0 = jnp.asarray([P0[k] for k in names])
    for fname, f in F.items():
        G = lambda v, f=f: f({k: v[i] for i, k in enumerate(names)})
        fj = jax.jit(f)
        fwd_all = np.asarray(jax.jit(jax.jacfwd(G))(v0))
        rev_all = np.asarray(jax.jit(jax.jacrev(G))(v0))
        cf_all = None
        for pi, pname in enumerate(names):
            if pname == "noise" and not fname.startswith("lml"):
                continue
            if case["rank"] == "exact" and (pname == "scale" or (pname == "noise" and fname != "lml_terminal") or fname == "lml_timeseries"):
                continue  # gains depend on these parameters; covered (with attribution) on the full-rank sub-lattice
            n += 1
            fwd, rev = float(fwd_all[pi]), float(rev_all[pi])
            tag = f"d {fname} / d {pname}"
            if not (np.isfinite(fwd) and np.isfinite(rev)):
                fails.append(core.fail("nonfinite_derivative:" + ("rev" if np.isfinite(fwd) else "fwd"), f"{tag}: fwd={fwd} rev={rev}"))
                continue
            if abs(fwd - rev) > 1e-8 * (abs(fwd) + abs(rev) + 1e-6):
                fails.append(core.fail("forward_reverse_disagree", f"{tag}: fwd={fwd!r} rev={rev!r}"))
            fd, ok = _fd(fj, pname, 2.0 ** -7)
            if not ok:
                undecided += 1
                continue
            dev = abs(fwd - fd) / (abs(fd) + 1e-4)
            if dev <= 1e-6:
                worst = max(worst, dev / 1e-6)
                if sample is None and abs(fd) > 1e-3:
                    sample = dict(derivative=tag, autodiff=fwd, finite_difference=fd)
                continue
            # counterfactual: exact QR derivative instead of the library's custom rule
            explained = False
            cf = None
            if case["rank"] == "fullrank":
                if cf_all is None:
                    orig = plinalg.qr_r
                    try:
                        plinalg.qr_r = lambda arr: jnp.linalg.qr(arr, mode="r")
                        cf_all = np.asarray(jax.jit(jax.jacfwd(lambda v, f=f: f({k: v[i] for i, k in enumerate(names)})))(v0))
                    finally:
                        plinalg.qr_r = orig
                cf = float(cf_all[pi])
                explained = np.isfinite(cf) and abs(cf - fd) / (abs(fd) + 1e-4) <= 1e-6
            kind = "ad_vs_fd_mismatch(explained_by_qr_r_jvp)" if explained else "ad_vs_fd_mismatch"
            fails.append(core.fail(kind, f"{tag}: autodiff {fwd!r}, finite differences {fd!r}" + (f", with exact QR derivative {cf!r}" if cf is not None else "")))
    seen = {}
    for fl in fails:
        seen.setdefault(fl["kind"] + fl["detail"][:40], fl)
    return core.result(case, list(seen.values())[:12], transitions=n, traces=n - undecided, states=n, outcome="ok" if not fails else "|".join(sorted({f["kind"] for f in fails})), dev=worst,
                       sample=sample, undecided=undecided)


def _run_kernel(case):
    """The QR-based kernels in isolation: derivative of R^T R (always) and of the individual outputs (gain, R_{X|Y})."""
    import jax
    import jax.numpy as jnp
    from probdiffeq.backend import linalg
    from probdiffeq.util import cholesky_util

    from mc.props.C08 import _table

    fails = []
    n = 0
    k = case["kernel"]
    for shape in ((4, 3), (3, 3), (6, 2)):
        A0 = jnp.asarray(_table(shape[0], shape[1], 3))
        A1 = jnp.asarray(_table(shape[0], shape[1], 4))
        if k == "qr_r":
            funs = {"RtR": lambda s: jnp.sum((lambda R: R.T @ R)(linalg.qr_r(A0 + s * A1)) * jnp.asarray(_table(shape[1], shape[1], 5)))}
        elif k == "sum_of_sqrtm_factors":
            B = jnp.asarray(_table(shape[1], shape[1], 6))
            funs = {"RtR": lambda s: jnp.sum((lambda R: R.T @ R)(cholesky_util.sum_of_sqrtm_factors(R_stack=(A0 + s * A1, B))) * jnp.asarray(_table(shape[1], shape[1], 5)))}
        else:
            nx, ny = shape[1], 2
            RX = jnp.asarray(np.triu(_table(nx, nx, 7)) + 2 * np.eye(nx))
            H0, H1 = jnp.asarray(_table(ny, nx, 8)), jnp.asarray(_table(ny, nx, 9))
            RYX = jnp.asarray(np.triu(_table(ny, ny, 10)) + np.eye(ny))

            def parts(s):
                H = H0 + s * H1
                r_obs, (r_cor, gain) = cholesky_util.revert_conditional(R_X_F=RX @ H.T, R_X=RX, R_YX=RYX, solve_triu=linalg.solve_triu)
                return r_obs, r_cor, gain

            funs = {"S=RyTRy": lambda s: jnp.sum((lambda r: r.T @ r)(parts(s)[0])), "gain": lambda s: jnp.sum(parts(s)[2] * jnp.asarray(_table(nx, ny, 11))),
                    "P=RcTRc": lambda s: jnp.sum((lambda r: r.T @ r)(parts(s)[1]) * jnp.asarray(_table(nx, nx, 12)))}
        for fname, f in funs.items():
            n += 1
            fwd = float(jax.jacfwd(f)(0.3))
            rev = float(jax.jacrev(f)(0.3))
            h = 2.0 ** -8
            D = lambda hh: (float(f(0.3 + hh)) - float(f(0.3 - hh))) / (2 * hh)
            fd = (4 * D(h / 2) - D(h)) / 3
            tag = f"{k} shape={shape} {fname}"
            if not (np.isfinite(fwd) and np.isfinite(rev)) or abs(fwd - rev) > 1e-9 * (abs(fwd) + 1e-6):
                fails.append(core.fail("forward_reverse_disagree", f"{tag}: {fwd} {rev}"))
            if abs(fwd - fd) > 1e-6 * (abs(fd) + 1e-3):
                kind = "kernel_derivative_wrong(" + fname + ")"
                fails.append(core.fail(kind, f"{tag}: autodiff {fwd!r} vs finite differences {fd!r}"))
    seen = {}
    for fl in fails:
        seen.setdefault(fl["kind"], fl)
    return core.result(case, list(seen.values()), transitions=n, traces=n, states=n, outcome="ok" if not fails else "|".join(sorted(seen)), sample=dict(kernel=k))


def merge_coverage(results):
    return dict(undecided_finite_difference_cases=sum(r.get("undecided", 0) for r in results))
