"""C13 - posterior samples are exact affine images of the normal draws.

The random source is owned by the harness: `probdiffeq.backend.random.normal` is replaced by a recorded-draw source
(under jax.disable_jit(), so that every request is one call). A joint sample is an affine function of the draws,
so the map is determined completely by the draw vectors 0, e_1, ..., e_M (M = total number of scalar draws): ALL
of them are enumerated. Oracle: draws == 0 -> sample == smoothing means at every output time; the matrix of
sample(e_k) - sample(0) has the reference joint smoothing covariance (60-digit RTS) as its Gram matrix; the number
and shapes of the requested draws match the state; sample shapes are prepended; sample(key, shape=(a,b))[i,j] equals
the sample drawn with the correspondingly split key. Posteriors: fixed-interval on fixed grids, fixed-point through
scripted adaptive runs, prior sequences from MarkovSequence.from_grid; three factorisations; pytree states.
"""

import itertools

import numpy as np

from mc import alphabets, core

LEVEL = "model_checking"
ENGINE = "E2 xprod (owned random source)"
TECHNIQUE = "exhaustive enumeration of the basis of the draw space (zero vector and every unit vector) for each posterior of a finite catalogue, with the random source replaced by the harness; oracle = exact joint smoothing law (60-digit RTS reference)"
LEVEL_TEXT = "A sample is affine in the draws, so enumerating the zero draw and all unit draws decides the complete sample map; it is compared with the exact joint mean and covariance."
LEVEL_NOTE = "Trusted: mpmath RTS reference (C03); harness-side replacement of backend.random.normal under jax.disable_jit (restored afterwards)."
TIMEOUT_S = {"quick": 1500, "thorough": 7200}
EPS = 2.0 ** -20


def enumerate_cases(tier, seed):
    quick = tier == "quick"
    cases = []
    for ssm, calib, lin in itertools.product(("dense", "isotropic", "blockdiag"), ("none", "mle") if quick else ("none", "mle", "dynamic"), ("ts0", "ts1")):
        for src in ("fixedinterval_grid", "fixedpoint_adaptive"):
            for (d, m, q) in ([(2, 1, 2)] if quick else [(2, 1, 2), (1, 2, 2), (3, 1, 1)]):
                cases.append(dict(id=f"{src}/{ssm}/{calib}/{lin}/d{d}m{m}q{q}", group=f"{ssm}/{src}", part="posterior", src=src, ssm=ssm, calib=calib, lin=lin, d=d, m=m, q=q,
                                  init="inexact", field=sorted(alphabets.fields(d, m, tier))[seed % len(alphabets.fields(d, m, tier))], init_id=0, tier=tier, weight=100))
    for ssm in ("dense", "isotropic", "blockdiag"):
        cases.append(dict(id=f"from_grid/{ssm}", group=f"{ssm}/from_grid", part="from_grid", ssm=ssm, tier=tier, weight=40))
        cases.append(dict(id=f"shapes/{ssm}", group=f"{ssm}/shapes", part="shapes", ssm=ssm, tier=tier, weight=40))
    return cases


def describe(tier, seed):
    return dict(
        rule="case = (posterior source, factorisation, calibration, linearisation, problem); inside: grids/histories x {zero draw, every unit draw}; non-trivial = all (non-unit preconditioners, non-zero backward offsets)",
        exhaustive=True,
        alphabets=dict(sources=["fixed-interval smoother on fixed grids", "fixed-point smoother via scripted adaptive runs", "MarkovSequence.from_grid (prior)"],
                       grids=[[0, 0.125, 0.625, 0.75], [0, 0.5, 0.5078125, 1.0078125]], sample_shapes=[(), (2,), (2, 3)]),
        bounds=dict(tolerance=1e-8),
        assumptions=["draw requests are counted under jax.disable_jit()"],
    )


def run_cases(cases):
    from mc import jaxenv

    jaxenv.setup()
    for case in cases:
        fn = {"posterior": _run_posterior, "from_grid": _run_from_grid, "shapes": _run_shapes}[case["part"]]
        yield core.guarded(case, fn)


class DrawSource:
    """Replacement for backend.random.normal: returns slices of a prepared draw vector and records every request."""

    def __init__(self):
        self.requests = []
        self.vector = None
        self.pos = 0

    def reset(self, vector=None):
        self.requests, self.vector, self.pos = [], vector, 0

    def __call__(self, key, /, shape, dtype=None):
        import jax.numpy as jnp

        size = int(np.prod(shape)) if len(shape) else 1
        self.requests.append(tuple(shape))
        if self.vector is None:
            out = np.zeros(size)
        else:
            out = self.vector[self.pos:self.pos + size]
            if len(out) < size:
                out = np.concatenate([out, np.zeros(size - len(out))])
        self.pos += size
        return jnp.asarray(out.reshape(shape))


def _flatten_sample(sample, ssm, K1, n, d):
    """Sample pytree (list over coefficients of arrays (K1, d)) -> array (K1, n*d) coefficient-major."""
    import jax

    leaves = [np.asarray(l) for l in sample]
    return np.stack([np.concatenate([leaves[i][k].reshape(-1) for i in range(n)]) for k in range(K1)])


def _sample_map(post, src):
    """Return (mu (K1, n*d), M (K1*n*d, Mtot), requests) by enumerating the zero draw and all unit draws."""
    import jax
    import jax.numpy as jnp
    import probdiffeq.backend.random as prandom

    orig = prandom.normal
    prandom.normal = src
    try:
        with jax.disable_jit():
            key = jax.random.PRNGKey(0)
            src.reset(None)
            s0 = post.sample(key)
            reqs = list(src.requests)
            total = sum(int(np.prod(r)) if len(r) else 1 for r in reqs)
            n = len(s0)
            K1 = np.asarray(s0[0]).shape[0]
            d = int(np.prod(np.asarray(s0[0]).shape[1:])) if np.asarray(s0[0]).ndim > 1 else 1
            mu = _flatten_sample(s0, None, K1, n, d)
            cols = []
            for k in range(total):
                e = np.zeros(total)
                e[k] = 1.0
                src.reset(e)
                sk = post.sample(key)
                cols.append((_flatten_sample(sk, None, K1, n, d) - mu).reshape(-1))
            M = np.stack(cols, axis=1) if cols else np.zeros((mu.size, 0))
    finally:
        prandom.normal = orig
    return mu, M, reqs, (K1, n, d)


def _check_map(fails, wk, tag, mu, M, reqs, dims, ref_means, ref_joint, q, d, hs, allowed, ssm, std_scale=None):
    from mc.refmodel import gauss

    K1, n, dd = dims
    nd = n * dd
    # number and shapes of requested draws: one request per output time, each with n*d scalars
    counts = [int(np.prod(r)) if len(r) else 1 for r in reqs]
    if len(reqs) != K1 or any(c != nd for c in counts):
        fails.append(core.fail("draw_requests", f"{tag}: requests {reqs} for {K1} output times of a {n}x{dd} state (each must provide {nd} independent draws)"))
    # zero draws -> smoothing means
    for k in range(K1):
        W = np.array([float(w) for w in gauss.taylor_scaling(q, d, hs[k])])
        mr = np.array([float(v) for v in ref_means[k]])
        sd = np.sqrt(np.clip(np.diag(gauss.tofloat(ref_joint[k * nd:(k + 1) * nd, k * nd:(k + 1) * nd])), 0, None))
        dev = float(np.max(np.abs((mu[k] - mr) * W) / (np.abs(mr * W) + sd * W + 1e-4 * max(np.max(np.abs(mr * W)), 1e-300))))
        wk["mean"] = max(wk.get("mean", 0.0), dev / allowed)
        if not dev <= allowed:
            fails.append(core.fail("zero_draw_sample_differs_from_mean", f"{tag} time {k}: scaled deviation {dev:.2e}; sample {mu[k][:dd]} mean {mr[:dd]}"))
            break
    # Gram matrix == joint smoothing covariance
    G = M @ M.T
    Jr = gauss.tofloat(ref_joint)
    Wall = np.concatenate([np.array([float(w) for w in gauss.taylor_scaling(q, d, hs[k])]) for k in range(K1)])
    sdall = np.sqrt(np.clip(np.diag(Jr), 0, None)) * Wall
    scale = np.outer(sdall, sdall) + 1e-4 * max(np.max(sdall) ** 2, 1e-300)
    dev = float(np.max(np.abs((G - Jr) * np.outer(Wall, Wall)) / scale)) if np.all(np.isfinite(G)) else float("inf")
    wk["gram"] = max(wk.get("gram", 0.0), dev / allowed)
    if not dev <= allowed:
        fails.append(core.fail("gram_of_sample_map_differs_from_joint_covariance", f"{tag}: scaled deviation {dev:.2e}"))


def _run_posterior(case):
    import jax.numpy as jnp

    from mc import compare, impl, scripted, ssmcheck
    from mc.props import C03
    from mc.refmodel import gauss

    tier = case["tier"]
    d, m, q = case["d"], case["m"], case["q"]
    C = alphabets.fields(d, m, tier)[case["field"]]
    tc = ssmcheck.mean0(C, d, m, q, case["init_id"])
    strategy = "fixedinterval" if case["src"] == "fixedinterval_grid" else "fixedpoint"
    cfg = dict(ssm=case["ssm"], calib=case["calib"], relin=False, lin=case["lin"], m=m, strategy=strategy, init="inexact", inexact_eps=2.0 ** -10)
    std0 = impl.init_std(cfg, q, d)
    fails, wk = [], {}
    src = DrawSource()
    n_runs = 0
    sample = None
    if strategy == "fixedinterval":
        prog = impl.fixed_grid_program(impl.cfg_key(cfg))
        jobs = [([0.0, 0.125, 0.625, 0.75], None), ([0.0, 0.5, 0.5078125, 1.0078125], None)]
    else:
        prog = impl.adaptive_program(impl.cfg_key(cfg))
        jobs = [([0.25, 0.125, 0.5], [0, 1, 0]), ([0.125, 0.5, 0.25], [0, 0, 0])]
    for a, b in jobs:
        if strategy == "fixedinterval":
            grid = a
            out = prog(jnp.asarray(C), jnp.asarray(grid), jnp.asarray(tc), jnp.ones(d), 0.0)
            obs = [True] * len(grid)
            idxs = list(range(len(grid)))
            tag = f"grid={grid}"
        else:
            S, r = a, b
            e = np.concatenate([[0.0], np.cumsum(S)])
            save_at = [0.0, float(e[1] * 0.5), float(e[1]), float(e[1] + (e[2] - e[1]) * 0.25), float(e[-2] + 0.75 * (e[-1] - e[-2]))]
            ends = scripted.step_ends(S, 0.0, save_at[-1], EPS)
            grid, obs, idxs = ssmcheck.union_grid(ends, save_at, EPS)
            Sp, rp = np.array(S + [S[-1]]), np.array(r + [0])
            out = prog(jnp.asarray(C), jnp.asarray(save_at), jnp.asarray(tc), jnp.ones(d), 0.0, jnp.asarray(Sp), jnp.asarray(rp), scripted.first_dt(Sp, rp), EPS)
            tag = f"S={S} r={r} save_at={save_at}"
        post = out["post"]
        try:
            res, sm, G = C03._ref(case, C, grid, obs, 0.0, tc.reshape(-1), std0)
        except gauss.Degenerate:
            continue
        hs_all = ssmcheck.local_steps(grid)
        hs = [hs_all[i] for i in idxs]
        amp = C03._smooth_amp([g for g, o in zip(grid, obs) if o], q)
        allowed = (compare.TAU + ssmcheck.scale_slack(res)[-1]) * amp
        mu, M, reqs, dims = _sample_map(post, src)
        n_runs += 1 + M.shape[1]
        J = gauss.joint_cov(sm, G, idxs)
        J = gauss.calibrated(res, J) if res.calib != "mle" else _calibrate_joint(res, J, len(idxs), q, d)
        _check_map(fails, wk, tag, mu, M, reqs, dims, [sm[i][0] for i in idxs], J, q, d, hs, allowed, case["ssm"])
        if sample is None:
            sample = dict(tag=tag, draw_requests=[list(r) for r in reqs], total_draws=int(M.shape[1]))
        if len(fails) > 6:
            break
    seen = {}
    for f in fails:
        seen.setdefault(f["kind"], f)
    return core.result(case, list(seen.values()), transitions=n_runs, traces=n_runs, states=n_runs, outcome="ok" if not fails else "|".join(sorted(seen)),
                       dev=max(wk.values(), default=0.0), sample=sample, dev_by_kind=wk)


def _calibrate_joint(res, J, K1, q, d):
    """Joint covariance times the MLE scale^2 (per dimension for blockdiag), for all K1 blocks."""
    from mc.refmodel import gauss

    nd = (q + 1) * d
    out = J.copy()
    for a in range(K1):
        for b in range(K1):
            out[a * nd:(a + 1) * nd, b * nd:(b + 1) * nd] = gauss._scale_cov(J[a * nd:(a + 1) * nd, b * nd:(b + 1) * nd], res.scale2, q, d, res.structure)
    return out


def _run_from_grid(case):
    """Prior samples on a grid follow the prior's joint law (IWP transitions composed from the initial law)."""
    import jax.numpy as jnp
    from probdiffeq import probdiffeq

    from mc import impl
    from mc.refmodel import gauss

    ssm_name = case["ssm"]
    d, q = 2, 2
    n = q + 1
    nd = n * d
    ssm = impl.SSM[ssm_name]()
    tcs = [jnp.asarray([0.5, 0.25]), jnp.asarray([-0.25, 0.125]), jnp.asarray([1.0, -1.0])]
    fails, wk = [], {}
    src = DrawSource()
    runs = 0
    sample = None
    for grid, scale in itertools.product(([0.0, 0.125, 0.625], [0.0, 0.5, 0.5078125, 1.0]), (None, "scaled")):
        base = None if scale is None else (jnp.asarray(3.0) if ssm_name == "isotropic" else jnp.asarray([3.0, 0.5]))
        bvec = [1.0, 1.0] if scale is None else ([3.0, 3.0] if ssm_name == "isotropic" else [3.0, 0.5])
        prior = ssm.prior_wiener_integrated(tcs, is_exact=False, inexact_eps=0.25, output_scale=base)
        for reverse in (False,):
            seq = probdiffeq.MarkovSequence.from_grid(prior, grid=jnp.asarray(grid), reverse=reverse)
            mu, M, reqs, dims = _sample_map(seq, src)
            runs += 1 + M.shape[1]
            # reference joint law of the prior on the grid
            m0 = gauss.M(np.concatenate([np.asarray(t) for t in tcs]))
            P0 = gauss.eye(nd) * gauss.mpf(0.25) ** 2
            means, covs = [m0], [P0]
            As = []
            for a, b in zip(grid[:-1], grid[1:]):
                A, Qm = gauss.iwp(q, d, gauss.mpf(b) - gauss.mpf(a), bvec)
                As.append(A)
                means.append(A @ means[-1])
                covs.append(A @ covs[-1] @ A.T + Qm)
            K1 = len(grid)
            J = gauss.zeros(K1 * nd, K1 * nd)
            for i in range(K1):
                J[i * nd:(i + 1) * nd, i * nd:(i + 1) * nd] = covs[i]
                Cx = covs[i]
                for j in range(i + 1, K1):
                    Cx = Cx @ As[j - 1].T
                    J[i * nd:(i + 1) * nd, j * nd:(j + 1) * nd] = Cx
                    J[j * nd:(j + 1) * nd, i * nd:(i + 1) * nd] = Cx.T
            hs = [np.diff(grid)[max(k - 1, 0)] for k in range(K1)]
            _check_map(fails, wk, f"from_grid grid={grid} scale={scale}", mu, M, reqs, dims, means, J, q, d, hs, 1e-8 * max(1.0, (max(np.diff(grid)) / min(np.diff(grid))) ** q), ssm_name)
            if sample is None:
                sample = dict(grid=grid, draw_requests=[list(r) for r in reqs])
    seen = {}
    for f in fails:
        seen.setdefault(f["kind"], f)
    return core.result(case, list(seen.values()), transitions=runs, traces=runs, states=runs, outcome="ok" if not fails else "|".join(sorted(seen)), dev=max(wk.values(), default=0.0), sample=sample)


def _run_shapes(case):
    """Sample shapes are prepended to the state shape; sample(key, shape=(a, b))[i, j] == sample(key_ij, shape=()); pytree states."""
    import jax
    import jax.numpy as jnp
    from probdiffeq import ivpsolve, probdiffeq
    from probdiffeq.backend import random as prandom

    from mc import impl

    ssm = impl.SSM[case["ssm"]]()
    fails = []
    n = 0
    u0 = {"a": jnp.asarray([0.5, 0.25]), "b": jnp.asarray(1.5)}
    vf = probdiffeq.ode(lambda u, *, t: {"a": -u["a"] * u["b"], "b": -0.5 * u["b"] + t}, jacobian=probdiffeq.jacobian_materialize())
    tc, _ = probdiffeq.jetexpand_ode_unroll(num=2)(vf, [u0], t=0.0)
    prior = ssm.prior_wiener_integrated(tc)
    solver = probdiffeq.solver(strategy=probdiffeq.strategy_smoother_fixedinterval(), constraint=ssm.constraint_ode_ts0(vf))
    sol = ivpsolve.solve_fixed_grid(solver=solver)(prior, grid=jnp.asarray([0.0, 0.25, 0.375, 1.0]))
    post = sol.solution_full.posterior
    key = jax.random.PRNGKey(7)
    base = post.sample(key)
    base_shapes = [np.shape(x) for x in jax.tree.leaves(base)]
    if jax.tree.structure(base) != jax.tree.structure(sol.u.mean) or base_shapes != [np.shape(x) for x in jax.tree.leaves(sol.u.mean)]:
        fails.append(core.fail("sample_structure", f"{jax.tree.structure(base)} {base_shapes} vs mean {jax.tree.structure(sol.u.mean)}"))
    for shape in ((2,), (2, 3)):
        s = post.sample(key, shape=shape)
        n += 1
        shapes = [np.shape(x) for x in jax.tree.leaves(s)]
        if jax.tree.structure(s) != jax.tree.structure(base) or shapes != [shape + bs for bs in base_shapes]:
            fails.append(core.fail("sample_shape_not_prepended", f"shape={shape}: {shapes} vs {base_shapes}"))
            continue
        # element [i(,j)] equals the sample with the correspondingly split key
        keys = prandom.split(key, num=shape[0])
        for i in range(shape[0]):
            if len(shape) == 1:
                want = post.sample(keys[i])
                got = jax.tree.map(lambda x: x[i], s)
                if not all(np.allclose(np.asarray(a), np.asarray(b), rtol=1e-12, atol=1e-14) for a, b in zip(jax.tree.leaves(got), jax.tree.leaves(want))):
                    fails.append(core.fail("batched_sample_differs_from_single", f"shape={shape} element {i}"))
            else:
                keys2 = prandom.split(keys[i], num=shape[1])
                for j in range(shape[1]):
                    want = post.sample(keys2[j])
                    got = jax.tree.map(lambda x: x[i, j], s)
                    if not all(np.allclose(np.asarray(a), np.asarray(b), rtol=1e-12, atol=1e-14) for a, b in zip(jax.tree.leaves(got), jax.tree.leaves(want))):
                        fails.append(core.fail("batched_sample_differs_from_single", f"shape={shape} element {i},{j}"))
    # distinct samples within a batch (a reused key would make them equal)
    s = post.sample(key, shape=(3,))
    l0 = np.asarray(jax.tree.leaves(s)[0])
    if np.allclose(l0[0], l0[1]) or np.allclose(l0[1], l0[2]):
        fails.append(core.fail("batch_members_identical", "samples of one batch coincide"))
    seen = {}
    for f in fails:
        seen.setdefault(f["kind"], f)
    return core.result(case, list(seen.values()), transitions=n + 1, traces=n + 1, states=n + 1, outcome="ok" if not fails else "|".join(sorted(seen)), sample=dict(shapes=[(), (2,), (2, 3)]))
