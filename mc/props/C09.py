"""C09 - prior transitions are the exact discretisation of their SDE and compose.

iwp       prior_wiener_integrated(...).transition(dt=h, output_scale=s).preconditioner_apply() in the three
          factorisations vs the closed form (Taylor/Pascal transition, Hilbert-type process noise), h in 1e-6..1e2,
          q = 0..10, d <= 3 (5 thorough), base scales, calibrated scales; composition t(h2).merge(t(h1)) == t(h1+h2);
          noise Cholesky linear in both scales; cholesky_hilbert vs the exact factor.
expo      dense integrated Ornstein-Uhlenbeck / Matern / general exponential priors vs the 60-digit Van-Loan block
          exponential (||drift*h|| up to ~50), composition.
gram      gram_util.exp_gram_cholesky for all five Pade/Legendre orders in float64 and float32 on a matrix menu.
"""

import itertools

import numpy as np

from mc import core

LEVEL = "model_checking"
ENGINE = "E2 xprod (+E3 composition)"
TECHNIQUE = "exhaustive product enumeration (step sizes x orders x dimensions x scales x priors x Pade orders x dtypes, all step pairs for composition) against closed forms / a 60-digit Van-Loan matrix exponential reference"
LEVEL_TEXT = "Every combination of the listed finite alphabets is executed on the real prior constructors / exp_gram_cholesky and compared with an exact reference; composition is checked for all step pairs."
LEVEL_NOTE = "Trusted: mpmath expm at 60 digits, closed-form IWP formulas. float64 tolerance 1e-10 (norm-wise), float32 1e-4."
TIMEOUT_S = {"quick": 1200, "thorough": 7200}
HS = [1e-6, 1e-3, 0.1, 1.0, 10.0, 100.0]


def enumerate_cases(tier, seed):
    quick = tier == "quick"
    cases = []
    qs = [0, 1, 2, 4, 7, 10] if quick else list(range(11))
    ds = [1, 3] if quick else [1, 2, 3, 5]
    for ssm in ("dense", "isotropic", "blockdiag"):
        for q, d in itertools.product(qs, ds):
            cases.append(dict(id=f"iwp/{ssm}/q{q}/d{d}", group=f"iwp/{ssm}", part="iwp", ssm=ssm, q=q, d=d, weight=10 + q))
    for n in ([1, 2, 3, 5, 8, 11] if quick else list(range(1, 13))):
        cases.append(dict(id=f"hilbert/n{n}", group="hilbert", part="hilbert", n=n, weight=2))
    for kind in ("ou", "matern", "general"):
        for q, d in ([(1, 1), (2, 2), (3, 1)] if quick else [(1, 1), (1, 3), (2, 2), (3, 1), (4, 2), (5, 1)]):
            cases.append(dict(id=f"expo/{kind}/q{q}/d{d}", group=f"expo/{kind}", part="expo", kind=kind, q=q, d=d, weight=80))
    for order in (3, 5, 7, 9, 13):
        for dtype in ("float64", "float32"):
            cases.append(dict(id=f"gram/order{order}/{dtype}", group=f"gram/{dtype}", part="gram", order=order, dtype=dtype, weight=60))
    return cases


def describe(tier, seed):
    return dict(
        rule="case = (prior kind, factorisation or Pade order/dtype, q, d); inside: every h x base scale x calibrated scale, every ordered pair (h1,h2) for composition; "
             "non-trivial = all with q >= 1",
        exhaustive=True,
        alphabets=dict(h=HS, base_scales=["default", "0.5", "[3,0.5,2..]"], calibrated=[1.0, 1e-3, 50.0], pade_orders=[3, 5, 7, 9, 13], dtypes=["float64", "float32"],
                       ou_drifts=["-0.5 I", "rotation+damping", "stiff diag(-1,-20,..)"], matern_length_scales=[0.5, 2.0]),
        bounds=dict(tol64=1e-10, tol64_gram=3e-10, tol32=3e-4, drift_norm_times_h_max=50),
        assumptions=["exponential priors exist for the dense factorisation only (the others raise NotImplementedError)"],
    )


def run_cases(cases):
    from mc import jaxenv

    jaxenv.setup()
    for case in cases:
        fn = {"iwp": _run_iwp, "hilbert": _run_hilbert, "expo": _run_expo, "gram": _run_gram}[case["part"]]
        yield core.guarded(case, fn)


def _f(a):
    return np.array([[float(v) for v in row] for row in a])


def _cmp_cond(fails, tag, A, Q, Ar, Qr, tol, wk):
    """A entrywise-relative (with a norm floor), Q relative to sqrt(Q_ii Q_jj)."""
    Ar, Qr = _f(Ar), _f(Qr)
    if not (np.all(np.isfinite(A)) and np.all(np.isfinite(Q))):
        fails.append(core.fail("nonfinite", tag))
        return
    # transition: compare in the natural scaling of the state (sqrt of the noise diagonal), i.e. D^-1 A D
    dq = np.sqrt(np.clip(np.diag(Qr), 1e-300, None))
    As = Ar * dq[None, :] / dq[:, None]
    dA = np.max(np.abs(A - Ar) * dq[None, :] / dq[:, None]) / max(np.max(np.abs(As)), 1e-300)
    dQ = np.max(np.abs(Q - Qr) / np.outer(dq, dq))
    wk["A"] = max(wk.get("A", 0.0), dA / tol)
    wk["Q"] = max(wk.get("Q", 0.0), dQ / tol)
    if not dA <= tol:
        fails.append(core.fail("transition_matrix", f"{tag}: scaled deviation {dA:.2e}"))
    if not dQ <= tol:
        fails.append(core.fail("process_noise", f"{tag}: scaled deviation {dQ:.2e}"))


def _base_scales(ssm, d):
    out = [("default", None, [1.0] * d), ("half", 0.5 if ssm == "isotropic" else np.full((d,), 0.5), [0.5] * d)]
    if ssm != "isotropic" and d > 1:
        v = np.array([3.0, 0.5, 2.0, 0.25, 1.5][:d])
        out.append(("vector", v, list(v)))
    return out


def _run_iwp(case):
    import jax.numpy as jnp

    from mc import impl
    from mc.props import C08
    from mc.refmodel import gauss

    ssm, q, d = case["ssm"], case["q"], case["d"]
    fac = C08.Factory(ssm, q + 1, d)
    fails, wk = [], {}
    n = 0
    sample = None
    tc = [jnp.asarray(np.linspace(0.1, 0.9, d) * (i + 1)) for i in range(q + 1)]
    for bname, barg, bvec in _base_scales(ssm, d):
        prior = impl.SSM[ssm]().prior_wiener_integrated(tc, output_scale=barg)
        dense = {}
        for h in HS:
            for cal in (1.0, 1e-3, 50.0):
                calarg = jnp.asarray(cal) if ssm != "blockdiag" else cal * jnp.ones((d,))
                tr = prior.transition(dt=h, output_scale=calarg)
                A, b, Q, _, _ = fac.dense_cond(tr.preconditioner_apply())
                A0, b0, Q0, _, _ = fac.dense_cond(tr)
                Ar, Qr = gauss.iwp(q, d, gauss.mpf(h), [gauss.mpf(float(v)) * gauss.mpf(cal) for v in bvec])
                tag = f"base={bname} h={h} cal={cal}"
                _cmp_cond(fails, tag, A, Q, Ar, Qr, 1e-10, wk)
                if not (np.allclose(A0, A, rtol=1e-12, atol=0) and np.all(b == 0)):
                    fails.append(core.fail("preconditioner_apply_changes_conditional", tag))
                n += 1
                if cal == 1.0:
                    dense[h] = (tr, A, Q)
                else:
                    # noise Cholesky linear in the calibrated scale
                    L1 = np.asarray(dense[h][0].noise.cholesky_flat)
                    L2 = np.asarray(tr.noise.cholesky_flat)
                    if not np.allclose(L2, cal * L1, rtol=1e-13, atol=0):
                        fails.append(core.fail("noise_not_linear_in_calibrated_scale", tag))
                if sample is None and h == 0.1:
                    sample = dict(h=h, base=bname, A_first_row=[float(v) for v in A[0][: min(4, A.shape[1])]])
        # composition over all ordered pairs
        for h1, h2 in itertools.product(HS, HS):
            if max(h1, h2) / min(h1, h2) > 1e6 and q >= 4:
                continue  # (h1/h2)^q beyond float64's range for the merged preconditioner (a-priori rule, cf. compare.AMP_MAX)
            t1, t2 = dense[h1][0], dense[h2][0]
            merged = t2.merge(t1)
            A, b, Q, _, _ = fac.dense_cond(merged)
            Ar, Qr = gauss.iwp(q, d, gauss.mpf(h1) + gauss.mpf(h2), [gauss.mpf(float(v)) for v in bvec])
            amp = (max(h1, h2) / min(h1, h2)) ** q
            _cmp_cond(fails, f"base={bname} compose h1={h1} h2={h2}", A, Q, Ar, Qr, 1e-10 * max(1.0, min(amp, 1e6) ** 0.0), wk)
            n += 1
        if len(fails) > 10:
            break
    seen = {}
    for f in fails:
        seen.setdefault(f["kind"], f)
    return core.result(case, list(seen.values()), transitions=n, traces=n, states=n, outcome="ok" if not fails else "|".join(sorted(seen)), dev=max(wk.values(), default=0.0),
                       sample=sample, nontrivial=q >= 1)


def _run_hilbert(case):
    import mpmath
    from probdiffeq.util import cholesky_util

    from mc.refmodel import gauss  # noqa: F401  (sets mp.dps = 60)

    n = case["n"]
    fails = []
    worst = 0.0
    for K in (0, 1, 3):
        L = np.asarray(cholesky_util.cholesky_hilbert(n, K))
        H = mpmath.matrix(n, n)
        for i in range(n):
            for j in range(n):
                H[i, j] = mpmath.mpf(1) / (i + j + K + 1)
        Lr = mpmath.cholesky(H)
        for i in range(n):
            for j in range(n):
                want = float(Lr[i, j])
                dev = abs(L[i, j] - want) / max(abs(float(Lr[i, i])) * 0 + abs(want), 1e-300) if want != 0 else abs(L[i, j])
                worst = max(worst, dev / 1e-10)
                if not dev <= 1e-10:
                    fails.append(core.fail("cholesky_hilbert", f"n={n} K={K} entry ({i},{j}): {L[i, j]} vs {want}"))
    seen = {}
    for f in fails:
        seen.setdefault(f["kind"], f)
    return core.result(case, list(seen.values()), transitions=3 * n * n, traces=3, states=3, outcome="ok" if not fails else "fail", dev=worst, sample=dict(n=n))


def _van_loan(F, L, h):
    """(expm(F h), int_0^h e^{Fs} L L^T e^{F^T s} ds) at 60 digits."""
    import mpmath

    n = F.shape[0]
    Mx = mpmath.zeros(2 * n, 2 * n)
    LLt = L @ L.T
    for i in range(n):
        for j in range(n):
            Mx[i, j] = mpmath.mpf(float(F[i, j])) * h
            Mx[i, n + j] = mpmath.mpf(float(LLt[i, j])) * h
            Mx[n + i, n + j] = -mpmath.mpf(float(F[j, i])) * h
    old = mpmath.mp.dps
    mpmath.mp.dps = 120
    try:
        E = mpmath.expm(Mx, method="taylor")
        Phi = np.array([[E[i, j] for j in range(n)] for i in range(n)], dtype=object)
        X = np.array([[E[i, n + j] for j in range(n)] for i in range(n)], dtype=object)
        Q = X @ Phi.T
        Q = (Q + Q.T) / 2
    finally:
        mpmath.mp.dps = old
    return Phi, Q


def _drifts(kind, q, d):
    """name -> (constructor kwargs..., dense drift matrix F (n x n), dispersion L (n x d)) with n = (q+1) d."""
    from math import comb

    n = (q + 1) * d
    out = {}
    base = np.zeros((n, n))
    for i in range(q):
        base[i * d:(i + 1) * d, (i + 1) * d:(i + 2) * d] = np.eye(d)
    if kind == "ou":
        mats = {"decay": -0.5 * np.eye(d), "stiff": np.diag(-np.array([1.0, 20.0, 3.0, 7.0, 0.5][:d]))}
        if d >= 2:
            R = -0.25 * np.eye(d)
            R[0, 1], R[1, 0] = -2.0, 2.0
            mats["rotdamp"] = R
        for name, Mm in mats.items():
            F = base.copy()
            F[-d:, -d:] = Mm
            out[name] = (Mm, F)
    elif kind == "matern":
        for ell in (0.5, 2.0):
            D = q + 1
            lam = np.sqrt(2 * (D - 0.5)) / ell
            F = base.copy()
            for i in range(D):
                F[-d:, i * d:(i + 1) * d] = -comb(D, i) * lam ** (D - i) * np.eye(d)
            out[f"ell{ell}"] = (ell, F)
    else:
        # general linear drift on all coefficients (bottom block rows arbitrary, stable)
        from mc.props.C08 import _table

        B = 0.5 * _table(d, n, 3) - np.hstack([np.zeros((d, n - d)), 1.5 * np.eye(d)])
        F = base.copy()
        F[-d:, :] = B
        out["generic"] = (B, F)
    return out


def _run_expo(case):
    import jax.numpy as jnp
    from probdiffeq import probdiffeq

    from mc.props import C08

    kind, q, d = case["kind"], case["q"], case["d"]
    n = (q + 1) * d
    fac = C08.Factory("dense", q + 1, d)
    ssm = probdiffeq.state_space_model_dense()
    tc = [jnp.asarray(np.linspace(0.1, 0.9, d) * (i + 1)) for i in range(q + 1)]
    fails, wk = [], {}
    ntr = 0
    sample = None
    for name, (param, F) in _drifts(kind, q, d).items():
        for bname, barg, bvec in _base_scales("dense", d):
            if kind == "ou":
                Mj = jnp.asarray(param)
                prior = ssm.prior_ornstein_uhlenbeck_integrated(lambda x, Mj=Mj: Mj @ x, tc, output_scale=barg)
            elif kind == "matern":
                prior = ssm.prior_matern(param, tc, output_scale=barg)
            else:
                Bj = jnp.asarray(param)
                ode = probdiffeq.ode_autonomous_order_arbitrary(lambda *us, Bj=Bj: Bj @ jnp.concatenate(us), num_tcoeffs_in_args=q + 1)
                prior = ssm.prior_exponential(ode, tc, output_scale=barg)
            L = np.zeros((n, d))
            L[-d:, :] = np.diag(bvec)
            fn = np.linalg.norm(F, 1)
            trs = {}
            for h in HS:
                if fn * h > 50:
                    continue
                tr = prior.transition(dt=h, output_scale=jnp.asarray(1.0))
                A, b, Q, _, _ = fac.dense_cond(tr.preconditioner_apply())
                Phi, Qr = _van_loan(F, L, h)
                _cmp_cond(fails, f"{name} base={bname} h={h} (|F|h={fn * h:.2g})", A, Q, Phi, Qr, 1e-10, wk)
                ntr += 1
                trs[h] = tr
                tr2 = prior.transition(dt=h, output_scale=jnp.asarray(7.0))
                if not np.allclose(np.asarray(tr2.noise.cholesky_flat), 7.0 * np.asarray(tr.noise.cholesky_flat), rtol=1e-12, atol=0):
                    fails.append(core.fail("noise_not_linear_in_calibrated_scale", f"{name} h={h}"))
                if sample is None:
                    sample = dict(drift=name, h=h, norm_Fh=float(fn * h))
            for h1, h2 in itertools.product(list(trs), list(trs)):
                if fn * (h1 + h2) > 50 or max(h1, h2) / min(h1, h2) > 1e3:
                    continue
                A, b, Q, _, _ = fac.dense_cond(trs[h2].merge(trs[h1]))
                Phi, Qr = _van_loan(F, L, h1 + h2)
                _cmp_cond(fails, f"{name} base={bname} compose h1={h1} h2={h2}", A, Q, Phi, Qr, 1e-9, wk)
                ntr += 1
            if len(fails) > 8:
                break
        if len(fails) > 8:
            break
    seen = {}
    for f in fails:
        seen.setdefault(f["kind"], f)
    return core.result(case, list(seen.values()), transitions=ntr, traces=ntr, states=ntr, outcome="ok" if not fails else "|".join(sorted(seen)), dev=max(wk.values(), default=0.0), sample=sample)


def _run_gram(case):
    import jax.numpy as jnp
    from probdiffeq.backend import linalg
    from probdiffeq.util import gram_util

    from mc.props.C08 import _table

    order, dtype = case["order"], case["dtype"]
    if dtype == "float32" and not case.get("_child"):
        return _run_gram_f32_subprocess(case)
    from mc.refmodel import gauss  # noqa: F401  (sets mp.dps)
    pl = getattr(gram_util, f"pade_and_legendre_{order}")()
    fn = gram_util.exp_gram_cholesky(pade_legendre=pl, solve=linalg.solve_lu)
    tol = 3e-10 if dtype == "float64" else 3e-4  # order 3 reaches 3e-11 / 5e-5 (truncation); the order-5 defect was 1e-8
    fails, wk = [], {}
    ntr = 0
    sample = None
    for n, scale in itertools.product((2, 4, 6), (1e-3, 0.05, 0.5, 3.0, 20.0)):
        A = (_table(n, n, 7) - 1.2 * np.eye(n)) * scale / 2.0
        B = np.zeros((n, 2))
        B[-2:, :] = np.array([[1.0, 0.3], [0.0, 0.7]])
        eA, U = fn(jnp.asarray(A, dtype=dtype), jnp.asarray(B, dtype=dtype))
        if str(eA.dtype) != dtype:
            fails.append(core.fail("dtype", f"returned {eA.dtype}"))
        eA, U = np.asarray(eA, dtype=float), np.asarray(U, dtype=float)
        A_in = np.asarray(jnp.asarray(A, dtype=dtype), dtype=float)
        B_in = np.asarray(jnp.asarray(B, dtype=dtype), dtype=float)
        Phi, Qr = _van_loan(A_in, B_in, 1)
        Phi, Qr = _f(Phi), _f(Qr)
        dA = np.max(np.abs(eA - Phi)) / np.max(np.abs(Phi))
        dQ = np.max(np.abs(U @ U.T - Qr)) / np.max(np.abs(Qr))
        wk["expm"] = max(wk.get("expm", 0.0), dA / tol)
        wk["gram"] = max(wk.get("gram", 0.0), dQ / tol)
        tag = f"n={n} |A|~{scale}"
        if not dA <= tol:
            fails.append(core.fail("matrix_exponential", f"{tag}: {dA:.2e}"))
        if not dQ <= tol:
            fails.append(core.fail("gramian", f"{tag}: {dQ:.2e}"))
        if not np.allclose(U, np.tril(U)) or np.any(np.diag(U) < 0):
            fails.append(core.fail("gram_factor_not_lower_triangular_nonneg_diag", tag))
        ntr += 1
        if sample is None:
            sample = dict(n=n, scale=scale, expm_dev=float(dA), gram_dev=float(dQ))
    seen = {}
    for f in fails:
        seen.setdefault(f["kind"], f)
    return core.result(case, list(seen.values()), transitions=ntr, traces=ntr, states=ntr, outcome="ok" if not fails else "|".join(sorted(seen)), dev=max(wk.values(), default=0.0), sample=sample)


def _run_gram_f32_subprocess(case):
    """float32 needs jax_enable_x64 off, which is process-global: run the same body in a child process."""
    import json
    import os
    import subprocess
    import sys

    env = dict(os.environ, VERIF_X64="0")
    code = ("import json,sys; from mc import jaxenv; jaxenv.setup(x64=False); from mc.props import C09; "
            "c=json.loads(sys.argv[1]); c['_child']=True; print('RESULT'+json.dumps(C09._run_gram(c), default=str))")
    p = subprocess.run([sys.executable, "-c", code, json.dumps(case)], capture_output=True, text=True, env=env, cwd=os.path.dirname(os.path.dirname(os.path.dirname(os.path.abspath(__file__)))))
    for line in p.stdout.splitlines():
        if line.startswith("RESULT"):
            return json.loads(line[6:])
    return core.result(case, [core.fail("exception:child", (p.stderr or p.stdout)[-1200:])], outcome="exception")
