"""C02 - filter posterior equals the exact Gaussian posterior of the linearised model.

Engine E2: the full Cartesian product of configuration axes x polynomial fields x initial values x
all step sequences over a dyadic menu x damping is executed on the real `solve_fixed_grid` and on
the 60-digit covariance-form EKF of mc/refmodel/gauss.py; means, full covariances, output scales and
step counts are compared at every grid point in the metric of mc/compare.py.
"""

import itertools

import numpy as np

from mc import alphabets, core

LEVEL = "model_checking"
ENGINE = "E2 xprod"
TECHNIQUE = "exhaustive product-space enumeration (configurations x polynomial fields x all step sequences up to length L over a dyadic menu) on the real fixed-grid solver, compared state by state with an exact (60-digit, covariance-form) extended Kalman filter reference that is self-validated against batch Gaussian conditioning"
LEVEL_TEXT = ("Every case of a finite, explicitly listed product space is executed on the real code and on an independent reference; "
              "equality of means, full covariances, output scales and step counts is asserted at every grid point.")
LEVEL_NOTE = ("Trusted: mpmath arithmetic; the documented semantics of calibration/damping/Jacobian structure as transcribed in mc/refmodel/gauss.py "
              "(self-checked against batch conditioning). Vector fields are polynomial (degree <= 3), times dyadic. Tolerance 1e-8 in step-scaled coordinates.")
TIMEOUT_S = {"quick": 1800, "thorough": 21600}

SCALE_VEC = [3.0, 0.5, 2.0]
DAMPS = [0.0, 2.0 ** -10]


def axes(tier):
    quick = tier == "quick"
    return dict(
        ssm=["dense", "isotropic", "blockdiag"],
        calib=[("none", False), ("mle", False), ("dynamic", False), ("dynamic", True)],
        lin=["ts0", "ts1", "residual"],
        dm=[(1, 1), (2, 1), (1, 2)] if quick else [(1, 1), (2, 1), (3, 1), (1, 2), (2, 2)],
        q=[1, 2, 4] if quick else [1, 2, 3, 4, 6, 8],
        init=["exact", "inexact"],
        variant=["plain", "constraint_init"] if quick else ["plain", "scaled", "diffuse", "constraint_init", "mle_nocorr", "prior_ou", "prior_matern"],
        steps=[2.0 ** -7, 0.125, 0.5] if quick else alphabets.STEP_MENU,
        lengths=[3] if quick else [1, 2, 3, 4],
    )


def _grids_for(ax, q, tier):
    steps = ax["steps"]
    if q >= 7:
        steps = [s for s in steps if s >= 2.0 ** -7 and s <= 0.5]  # tighter range at the highest orders (as the property allows)
    from mc import compare

    gs = [g for g in alphabets.grids(steps, ax["lengths"]) if compare.admissible(g, q)]
    if tier == "thorough":
        # all sequences up to length 2 over the full menu; lengths 3 and 4 over the three-value menu {2^-7, 1/8, 1/2}
        # (length 4: at most two distinct step sizes)
        small = {2.0 ** -7, 0.125, 0.5}
        gs = [g for g in gs if len(g) <= 3 or (set(np.diff(g)) <= small and (len(g) == 4 or len(set(np.diff(g))) <= 2))]
    return gs


def enumerate_cases(tier, seed):
    ax = axes(tier)
    cases = []
    for (d, m), q, init, variant, (calib, relin) in itertools.product(ax["dm"], ax["q"], ax["init"], ax["variant"], ax["calib"]):
        if q < m:
            continue
        if tier == "quick" and variant != "plain" and ((d, m) != (2, 1) or q != 2):
            continue  # quick: the initial-constraint variant on one (d, m, q) only
        if tier == "thorough":
            # thorough budget (about one hour on 16 cores): high orders for d <= 2 only (the exact reference at n = (q+1)d > 18 is too
            # slow); the non-plain variants on a (d, m, q) sub-lattice
            if (d, m) in ((3, 1), (2, 2)) and q not in (2, 4):
                continue
            if calib == "dynamic" and q > 6:
                # the dynamically calibrated scale at q = 8 is accurate to ~1e-6 only (the residual loses q*log2(1/h) bits to cancellation and
                # the loss accumulates over the steps): beyond the reach of the 1e-8 comparison, whose conditioning model was validated up to
                # q = 6; q = 8 is run for the uncalibrated and the MLE solver
                continue
            if (d, m) == (2, 1) and q > 6:
                continue
            if variant != "plain" and ((d, m) not in ((2, 1), (1, 2)) or q not in (2, 4)):
                continue
        if variant == "mle_nocorr" and calib != "mle":
            continue
        if variant == "diffuse" and q < m + 1:
            continue
        fnames = sorted(alphabets.fields(d, m, tier))
        ninits = len(alphabets.INITS[(d, m)])
        if tier == "quick":
            # VERIF_SEED selects which initial-value palette the quick tier uses; thorough runs all palettes on the plain variant
            init_ids = [seed % ninits]
        else:
            init_ids = list(range(ninits)) if (variant == "plain" and q <= 4) else [0]
            if variant != "plain" or q > 4:
                fnames = fnames[:2]
        for ssm, lin, fname, ii in itertools.product(ax["ssm"], ax["lin"], fnames, init_ids):
            if variant in ("prior_ou", "prior_matern") and ssm != "dense":
                continue  # exponential priors exist for the dense factorisation only
            ngr = len(_grids_for(ax, q, tier))
            cid = f"{ssm}/{calib}{'+relin' if relin else ''}/{lin}/d{d}m{m}/q{q}/{init}/{variant}/{fname}/u{ii}"
            cases.append(dict(id=cid, group=f"d{d}m{m}/q{q}/{init}/{variant}/{calib}", ssm=ssm, calib=calib, relin=relin, lin=lin, d=d, m=m, q=q,
                              init=init, variant=variant, field=fname, init_id=ii, tier=tier, weight=ngr * (1 + q * d) // 4 + 1))
    return cases


def describe(tier, seed):
    ax = axes(tier)
    return dict(
        rule="case = (factorisation, calibration mode, linearisation, d, ODE order, q, initial-state kind, variant, field, initial value); "
             "inside each case every grid (all step sequences of the listed lengths over the dyadic menu) x every damping value is solved and "
             "compared at every grid point; non-trivial = nonlinear or time-dependent field with >= 2 steps",
        exhaustive=True,
        alphabets={k: (v if k != "calib" else [c + ("+relin" if r else "") for c, r in v]) for k, v in ax.items()},
        bounds=dict(damps=DAMPS, scale_vec=SCALE_VEC, tolerance=1e-8),
        assumptions=["polynomial vector fields of degree <= 3; dyadic step sizes (no rounding in times)",
                     "reference = covariance-form EKF in 60-digit arithmetic with the documented Jacobian structure per factorisation",
                     "for q >= 7 the step menu is restricted to [2^-7, 1/2] as the property statement allows"],
    )


# ------------------------------------------------------------------------------------------------

_REF_CACHE = {}


def cfg_of(case):
    cfg = dict(ssm=case["ssm"], calib=case["calib"], relin=case["relin"], lin=case["lin"], m=case["m"], strategy="filter", init=case["init"],
               inexact_eps=2.0 ** -10)
    v = case["variant"]
    if v == "scaled":
        cfg["scaled"] = True
    if v == "diffuse":
        cfg["diffuse"] = 1
        cfg["diffuse_eps"] = 0.5
    if v == "constraint_init":
        cfg["constraint_init"] = True
    if v == "mle_nocorr":
        cfg["correction"] = False
    if v in ("prior_ou", "prior_matern"):
        cfg["prior"] = v[6:]
    return cfg


def ref_structure(case):
    if case["ssm"] == "blockdiag":
        return "blockdiag"
    if case["lin"] == "ts0" and (case["variant"] != "scaled" or case["d"] == 1):
        return "dense"  # isotropic == dense for TS0 with a scalar scale
    return case["ssm"]


def scale_vec_of(case):
    d = case["d"]
    if case["variant"] != "scaled":
        return [1.0] * d
    if case["ssm"] == "isotropic":
        return [SCALE_VEC[0]] * d
    return SCALE_VEC[:d]


def mean0_of(case, C):
    """Exact Taylor coefficients of the true solution at t0 = 0 (rounded to float64), shape (q+1-diffuse, d)."""
    from fractions import Fraction

    from mc.refmodel import series

    d, m, q = case["d"], case["m"], case["q"]
    ndiff = 1 if case["variant"] == "diffuse" else 0
    inits = alphabets.INITS[(d, m)][case["init_id"]]
    terms = series.terms_from_tensor(C)
    K = q + 1 - ndiff - m
    ders = series.ode_taylor(terms, d, m, [[Fraction(v) for v in row] for row in inits], Fraction(0), max(K, 0))
    ders = ders[: q + 1 - ndiff]
    return np.array([[float(v) for v in row] for row in ders])


def reference(case, C, grid, damp, mean0_full, std0):
    from mc.refmodel import gauss

    key = (case["field"], case["init_id"], tuple(grid), damp, case["q"], case["d"], case["m"], "ts0" if case["lin"] == "ts0" else "ts1",
           ref_structure(case), case["calib"], case["init"], case["variant"], tuple(scale_vec_of(case)))
    if key in _REF_CACHE:
        return _REF_CACHE[key], False
    field = gauss.PolyField(C, case["d"], case["m"])
    transition = None
    if case["variant"] in ("prior_ou", "prior_matern"):
        transition = _expo_transition(case["variant"][6:], case["q"], case["d"])
    res = gauss.ekf(field=field, q=case["q"], grid=grid, mean0=mean0_full, std0=std0, base_scale=scale_vec_of(case), transition=transition,
                    lin="ts0" if case["lin"] == "ts0" else "ts1", structure=ref_structure(case), damp=damp, calib=case["calib"],
                    correction=case["variant"] != "mle_nocorr", constraint_init=case["variant"] == "constraint_init")
    if len(_REF_CACHE) > 20000:
        _REF_CACHE.clear()
    _REF_CACHE[key] = res
    return res, True


_TRANS = {}


def _expo_transition(kind, q, d):
    """Exact discretisation of the exponential priors (120-digit Van Loan), cached per step size."""
    from mc import impl
    from mc.props import C09

    F = impl.sde_matrices(kind, q, d)
    n = (q + 1) * d
    L = np.zeros((n, d))
    L[-d:, :] = np.eye(d)

    def transition(h):
        key = (kind, q, d, str(h))
        if key not in _TRANS:
            _TRANS[key] = C09._van_loan(F, L, h)
        return _TRANS[key]

    return transition


def run_cases(cases):
    from mc import jaxenv

    jaxenv.setup()
    selfcheck()
    for case in cases:
        yield core.guarded(case, _run_case)


def _scale_slack(ref):
    """Per-time relative slack for means/covariances that depend on estimated scales (see compare.FLOOR_REL)."""
    from mc import compare

    out = []
    run = 0.0
    for sc, fl in zip(ref.scales, ref.scale_floors):
        sc = np.array([float(v) for v in np.atleast_1d(sc)])
        fl = np.array([float(v) for v in np.atleast_1d(fl)])
        ratio = float(np.max(fl / np.maximum(sc, 1e-300))) if np.any(fl > 0) else 0.0
        run = max(run, 4.0 * compare.TAU * compare.FLOOR_REL * ratio)
        out.append(run)
    if ref.calib == "mle":
        out = [out[-1]] * len(out)
    return out


_SELF = {"done": False}


def selfcheck():
    """Reference self-validation: recursive filter == batch conditioning on the same linearisations."""
    if _SELF["done"]:
        return
    from mc.refmodel import gauss

    C = alphabets.fields(2, 1)["lv_t"]
    field = gauss.PolyField(C, 2, 1)
    grid = [0.0, 0.125, 0.625, 0.6328125]
    mean0 = [0.5, 0.25, 0.375, -0.1875, 0.1, 0.2]
    std0 = [2.0 ** -10] * 6
    res = gauss.ekf(field=field, q=2, grid=grid, mean0=mean0, std0=std0, base_scale=[1.0, 1.0], lin="ts1", structure="dense", damp=2.0 ** -10)
    lins = []
    for k in range(1, len(grid)):
        mp_ = res.preds[k - 1][0]
        lins.append(gauss.linearize_ode(field, mp_, res.ts[k], 2, "ts1", "dense"))
    pm, pP = gauss.batch_posterior(field=field, q=2, grid=grid, mean0=mean0, std0=std0, base_scale=[1.0, 1.0], lins=lins, damp=2.0 ** -10)
    n = 6
    N = len(grid) - 1
    # the batch posterior at the last time is the filtering posterior; at earlier times it is the smoothing posterior
    sm, G = gauss.rts(res)
    worst = 0.0
    for k in range(N + 1):
        dm = max(abs(a - b) for a, b in zip(pm[k * n:(k + 1) * n], sm[k][0]))
        dP = max(abs(pP[k * n + i, k * n + j] - sm[k][1][i, j]) for i in range(n) for j in range(n))
        worst = max(worst, float(dm), float(dP))
    J = gauss.joint_cov(sm, G, list(range(N + 1)))
    dJ = max(abs(J[i, j] - pP[i, j]) for i in range(J.shape[0]) for j in range(J.shape[1]))
    worst = max(worst, float(dJ))
    if worst > 1e-40:
        raise core.HarnessError(f"reference self-check failed: recursive vs batch deviation {worst}")
    _SELF["done"] = True


def _run_case(case):
    import jax.numpy as jnp

    from mc import compare, impl
    from mc.refmodel import gauss

    tier = case["tier"]
    ax = axes(tier)
    d, m, q = case["d"], case["m"], case["q"]
    C = alphabets.fields(d, m, tier)[case["field"]]
    cfg = cfg_of(case)
    tc = mean0_of(case, C)
    ndiff = cfg.get("diffuse", 0)
    mean0_full = np.concatenate([tc.reshape(-1), np.zeros(ndiff * d)])
    std0 = impl.init_std(cfg, q, d)
    svec = np.asarray(scale_vec_of(case))
    prog = impl.fixed_grid_program(impl.cfg_key(cfg))
    fails = []
    worst = 0.0
    wk = dict(mean=0.0, cov=0.0, scale=0.0)
    n_points = 0
    n_ref = 0
    n_degenerate = 0
    n_illcond = 0
    n_below = 0
    nontriv = 0
    sample = None
    for grid in _grids_for(ax, q, tier):
        for damp in DAMPS:
            if case["variant"] == "constraint_init" and case["init"] == "exact" and damp == 0.0 and case["calib"] == "mle":
                # exact initial state, no damping: the initial residual and its variance are both exactly zero, so the first datum of
                # the quasi-MLE (whitened residual) is 0/0 - undefined, not wrong (a-priori rule; the uncalibrated and dynamic
                # solvers, whose pseudo-inverse update is well defined there, are still compared)
                continue
            # a-priori conditioning rule (cf. C04): an initial uncertainty many orders of magnitude above the process noise of the smallest
            # step (ratio = std0 / (scale * h_min^(q+1/2))) makes the first updates cancel ~ratio * 1e-16 of their terms (observed: up to
            # 5e-13 * ratio). Allowance: TAU * max(1, ratio / 3e3); grids whose allowance would exceed 1e-4 are not enumerated (counted)
            h_min = float(np.min(np.diff(grid)))
            cond_amp = max(1.0, float(np.max(std0)) / (float(np.min(svec)) * h_min ** (q + 0.5)) / 3e3)
            if cond_amp > 1e4:
                n_illcond += 1
                continue
            if case["calib"] == "dynamic" and case["init"] == "exact" and h_min ** q < 2.0 ** -40:
                # dynamic calibration from an exact Taylor initial mean: the residual is O(h^q) of its terms, i.e. below the rounding
                # level of float64 for this grid: the calibrated scale is rounding noise (or exactly zero: known finding F10 of C01)
                n_below += 1
                continue
            out = prog(jnp.asarray(C), jnp.asarray(grid), jnp.asarray(tc), jnp.asarray(svec), damp)
            out = {k: np.asarray(v) for k, v in out.items() if k in ("mean", "cov", "output_scale", "num_steps", "t")}
            try:
                ref, fresh = reference(case, C, grid, damp, mean0_full, std0)
            except gauss.Degenerate:
                n_degenerate += 1
                continue
            n_ref += 1
            N = len(grid) - 1
            hs = np.diff(grid)
            if list(out["num_steps"]) != list(range(1, N + 1)):
                fails.append(core.fail("num_steps", f"grid={grid}: {out['num_steps']}"))
            if not np.array_equal(out["t"], np.asarray(grid)):
                fails.append(core.fail("times", f"grid={grid}: {out['t']}"))
            # conditioning slack: an estimated scale inherits the cancellation in the residual z = H m + b;
            # its rounding error is ~1e-15 * (scale computed from |H||m|+|b|).  Allowed: 1e-11 * that (see compare.py)
            slack = _scale_slack(ref)
            amp = compare.amplification(grid, q)
            # input condition of known finding F10 (evaluated on the reference): a dynamically calibrated scale whose residual lies below
            # the rounding level of its terms (scale < 2^-50 x the same formula on |H||m|+|b|) is exactly zero in floating point
            sfx = ""
            if case["calib"] == "dynamic":
                for sc, fl in zip(ref.scales, ref.scale_floors):
                    sc = np.array([float(v) for v in np.atleast_1d(sc)])
                    fl = np.array([float(v) for v in np.atleast_1d(fl)])
                    if np.any(sc < 2.0 ** -50 * fl):
                        sfx = "[dynamic_residual_below_rounding_level]"
                n_below += bool(sfx)
            n_before = len(fails)
            for k in range(N + 1):
                h = hs[max(k - 1, 0)]
                mref, Pref = ref.filt[k]
                Pref = gauss.calibrated(ref, Pref)
                dm, dc = compare.state_dev(out["mean"][k], out["cov"][k], mref, Pref, q, d, h)
                dm, dc = dm / (amp[k] * cond_amp), dc / (amp[k] * cond_amp)
                allowed = compare.TAU + slack[k]
                worst = max(worst, dm / allowed if np.isfinite(dm) else 0.0, dc / allowed if np.isfinite(dc) else 0.0)
                wk['mean'] = max(wk['mean'], dm / allowed); wk['cov'] = max(wk['cov'], dc / allowed)
                n_points += 1
                if not (dm <= compare.TAU + slack[k]):
                    fails.append(core.fail("mean", f"grid={grid} damp={damp} point {k}: scaled deviation {dm:.3e}"))
                if not (dc <= compare.TAU + slack[k]):
                    fails.append(core.fail("cov", f"grid={grid} damp={damp} point {k}: scaled deviation {dc:.3e}"))
            # output scale: compare the entries the library returns (N for none/mle, N+1 for dynamic)
            osc = out["output_scale"]
            ref_scales = ref.scales[-osc.shape[0]:]
            ref_floors = ref.scale_floors[-osc.shape[0]:]
            amps = amp[-osc.shape[0]:]
            for k in range(osc.shape[0]):
                want = np.array([float(v) for v in np.atleast_1d(ref_scales[k])])
                floor = np.array([float(v) for v in np.atleast_1d(ref_floors[k])])
                got = np.atleast_1d(osc[k])
                if want.shape != got.shape and want.size == 1:
                    want = np.full(got.shape, want[0])
                if got.shape != want.shape:
                    fails.append(core.fail("output_scale_shape", f"{got.shape} vs {want.shape}"))
                    break
                if floor.shape != want.shape:
                    floor = np.full(want.shape, floor.reshape(-1)[0])
                dev = float(np.max(np.abs(got - want) / (np.abs(want) + compare.FLOOR_REL * floor + 1e-300))) / (amps[k] * cond_amp) if np.all(np.isfinite(got)) else float("inf")
                worst = max(worst, dev / compare.TAU if np.isfinite(dev) else 0.0)
                wk['scale'] = max(wk['scale'], dev / compare.TAU)
                if not (dev <= compare.TAU):
                    fails.append(core.fail("output_scale", f"grid={grid} damp={damp} entry {k}: got {got} want {want}"))
            if sfx:
                if all(np.all(np.isfinite(out[k])) for k in ("mean", "cov", "output_scale")):
                    del fails[n_before:]  # finite numbers on a grid whose scale float64 cannot resolve: not decidable, not a failure
                for f in fails[n_before:]:
                    f["kind"] += sfx
            if sample is None:
                sample = dict(grid=grid, damp=damp, final_mean=[float(v) for v in out["mean"][-1][:d]],
                              final_scale=[float(v) for v in np.atleast_1d(out["output_scale"][-1])])
            if N >= 2:
                nontriv += 1
            if len(fails) > 12:
                break
        if len(fails) > 12:
            break
    seen = {}
    for f in fails:
        seen.setdefault(f["kind"], f)
    return core.result(case, list(seen.values()), transitions=n_points, traces=n_ref, states=n_ref, outcome="ok" if not fails else "|".join(sorted(seen)),
                       dev=worst, nontrivial=nontriv > 0, sample=sample, dev_by_kind=wk, degenerate_skipped=n_degenerate,
                       illconditioned_skipped=n_illcond, below_rounding=n_below)


def merge_coverage(results):
    out = dict(degenerate_cases_excluded_by_reference_rule=sum(r.get("degenerate_skipped", 0) for r in results),
               grids_excluded_by_initial_conditioning_rule=sum(r.get("illconditioned_skipped", 0) for r in results),
               grids_with_dynamic_residual_below_rounding_level=sum(r.get("below_rounding", 0) for r in results))
    wk = {}
    for r in results:
        for k, v in (r.get("dev_by_kind") or {}).items():
            wk[k] = max(wk.get(k, 0.0), v)
    out["worst_deviation_by_observable"] = wk
    return out
