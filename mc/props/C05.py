"""C05 - checkpoint values do not depend on the checkpoint set; they interpolate exactly.

For every configuration and every scripted step history a candidate checkpoint set is built relative to
the step ends (interior of a step, two in one step eps/2 apart, exactly at a step end, eps/2 before /
after a step end) and **all subsets** (same endpoints) are solved with solve_adaptive_save_at
(clip_dt=False). Every returned value is compared with the exact Gaussian interpolation of the
underlying step sequence (filter: prediction from the preceding state; fixed-point smoother: RTS on the
union grid), which implies A-subset-B agreement by transitivity; it is also checked directly against the
full-set solve. Further parts: offgrid_marginals of a save-every-step run, terminal_values == last entry
of save_at, and tolerance-driven (natural) histories.
"""

import itertools

import numpy as np

from mc import alphabets, core

LEVEL = "model_checking"
ENGINE = "E1 (traceable scripted histories) + E2"
TECHNIQUE = "exhaustive enumeration of all checkpoint subsets (<= 2^7) x scripted accept/reject histories x configurations on the real solve_adaptive_save_at, each value compared with the exact Gaussian interpolation (60-digit reference on the union grid); plus offgrid-marginal and terminal-value differential checks"
LEVEL_TEXT = ("All subsets of a candidate checkpoint set placed adversarially relative to the step ends are solved for every enumerated history and configuration; "
              "means, covariances, step counts and output scales are compared with an exact reference interpolation and with the full-set solve.")
LEVEL_NOTE = "Trusted: mpmath reference; histories scripted on a dyadic lattice (natural, tolerance-driven histories in a smaller separate part). clip_dt=False as the statement requires."
TIMEOUT_S = {"quick": 1800, "thorough": 21600}
EPS = 2.0 ** -20


def axes(tier):
    quick = tier == "quick"
    return dict(
        ssm=["dense", "isotropic", "blockdiag"],
        calib=["none", "mle", "dynamic"],
        lin=["ts0", "ts1"],
        strategy=["filter", "fixedpoint"],
        dmq=[(2, 1, 2)] if quick else [(2, 1, 2), (1, 2, 3), (1, 1, 4)],
        init=["exact"] if quick else ["exact", "inexact"],
    )


def histories(tier):
    if tier == "quick":
        return [([0.25, 0.125, 0.5], [0, 1, 0]), ([0.125, 0.5, 0.25], [0, 0, 1]), ([0.5, 0.25, 0.25], [1, 0, 0])]
    out = []
    rs = ((0, 0, 0), (1, 0, 0), (0, 2, 0), (0, 0, 1))
    for i, S in enumerate(s_ for s_ in itertools.product([0.125, 0.25, 0.5], repeat=3) if len(set(s_)) >= 2):
        if i % 3 == 0:
            out.append((list(S), list(rs[(i // 3) % 4])))
    return out


def candidates(S, tier):
    e = np.concatenate([[0.0], np.cumsum(S)])
    c = [e[1] * 0.5, e[1], e[1] + (e[2] - e[1]) * 0.25, e[1] + (e[2] - e[1]) * 0.25 + EPS / 2, e[2] - EPS / 2]
    if tier != "quick":
        c += [e[2] + EPS / 2, e[2] + (e[3] - e[2]) * 0.5]
    return [float(x) for x in c], [float(x) for x in e]


def enumerate_cases(tier, seed):
    ax = axes(tier)
    cases = []
    for (d, m, q), init, calib, ssm, lin, strat in itertools.product(ax["dmq"], ax["init"], ax["calib"], ax["ssm"], ax["lin"], ax["strategy"]):
        fnames = sorted(alphabets.fields(d, m, tier))
        fname = fnames[seed % len(fnames)]
        base = dict(ssm=ssm, calib=calib, lin=lin, d=d, m=m, q=q, init=init, field=fname, init_id=0, tier=tier, strategy=strat)
        tag = f"{strat}/{ssm}/{calib}/{lin}/d{d}m{m}/q{q}/{init}/{fname}"
        cases.append(dict(id="subsets/" + tag, group=f"s/{d}{m}{q}/{init}/{calib}/{lin}", part="subsets", weight=600, **base))
    # offgrid marginals / terminal values / natural histories: reduced axes (python-loop drivers recompile per run)
    for ssm, calib in itertools.product(ax["ssm"], ax["calib"]):
        for strat in ("filter", "fixedinterval"):
            cases.append(dict(id=f"offgrid/{strat}/{ssm}/{calib}", group=f"o/{ssm}/{calib}", part="offgrid", ssm=ssm, calib=calib, lin="ts1" if ssm == "dense" else "ts0",
                              d=2, m=1, q=2, init="exact", field="lv_t", init_id=0, tier=tier, strategy=strat, weight=300))
        for strat in ("filter", "fixedpoint"):
            cases.append(dict(id=f"terminal/{strat}/{ssm}/{calib}", group=f"t/{ssm}/{calib}", part="terminal", ssm=ssm, calib=calib, lin="ts0",
                              d=2, m=1, q=2, init="exact", field="lv_t", init_id=0, tier=tier, strategy=strat, weight=200))
            cases.append(dict(id=f"natural/{strat}/{ssm}/{calib}", group=f"n/{ssm}/{calib}", part="natural", ssm=ssm, calib=calib, lin="ts1",
                              d=2, m=1, q=3, init="exact", field="lv_t", init_id=0, tier=tier, strategy=strat, weight=400))
    return cases


def describe(tier, seed):
    return dict(
        rule="case = configuration; inside: every scripted history x final time (last step ends exactly at / beyond it) x every subset of the candidate checkpoint set; "
             "non-trivial = subset with >= 1 interior checkpoint",
        exhaustive=True,
        alphabets=dict(axes(tier), histories=histories(tier), candidates="e1/2, e1, e1+(e2-e1)/4, that + eps/2, e2-eps/2" + ("" if tier == "quick" else ", e2+eps/2, (e2+e3)/2")),
        bounds=dict(eps=EPS, subsets_per_history=2 ** (5 if tier == "quick" else 7), tolerance=1e-8),
        assumptions=["clip_dt=False", "scripted histories on a dyadic lattice; natural histories only in the 'natural' part (tolerances 1e-2, 1e-4; dt0 0.01, 0.5)"],
    )


def run_cases(cases):
    from mc import jaxenv

    jaxenv.setup()
    for case in cases:
        fn = {"subsets": _run_subsets, "offgrid": _run_offgrid, "terminal": _run_terminal, "natural": _run_natural}[case["part"]]
        yield core.guarded(case, fn)


def _cfg(case, **kw):
    cfg = dict(ssm=case["ssm"], calib=case["calib"], relin=False, lin=case["lin"], m=case["m"], strategy=case["strategy"], init=case["init"], inexact_eps=2.0 ** -10)
    cfg.update(kw)
    return cfg


_CACHE = {}


def _reference(case, C, grid, obs, mean0, std0, damp=0.0):
    from mc import ssmcheck
    from mc.refmodel import gauss

    st = ssmcheck.ref_structure(case["ssm"], case["lin"], False, case["d"])
    key = (case["field"], tuple(grid), tuple(obs), case["q"], case["d"], case["m"], case["lin"], st, case["calib"], case["init"], damp)
    if key not in _CACHE:
        if len(_CACHE) > 3000:
            _CACHE.clear()
        field = gauss.PolyField(C, case["d"], case["m"])
        res = gauss.ekf(field=field, q=case["q"], grid=grid, mean0=mean0, std0=std0, base_scale=[1.0] * case["d"], lin=case["lin"], structure=st,
                        damp=damp, calib=case["calib"], observe=obs)
        sm, G = gauss.rts(res)
        _CACHE[key] = (res, sm, G)
    return _CACHE[key]


def _num_steps_at(ends, s):
    return next(k for k, e in enumerate(ends) if not (e + EPS < s))


def _run_subsets(case):
    import jax.numpy as jnp

    from mc import compare, impl, scripted, ssmcheck
    from mc.refmodel import gauss

    tier = case["tier"]
    d, m, q = case["d"], case["m"], case["q"]
    C = alphabets.fields(d, m, tier)[case["field"]]
    tc = ssmcheck.mean0(C, d, m, q, case["init_id"])
    cfg = _cfg(case)
    std0 = impl.init_std(cfg, q, d)
    prog = impl.adaptive_program(impl.cfg_key(cfg))
    fails, wk = [], {}
    n_vals = n_sub = n_nontriv = 0
    sample = None
    smooth = case["strategy"] != "filter"
    for S, r in histories(tier):
        cand, e = candidates(S, tier)
        for ending, t1 in (("exact", float(e[-1])), ("beyond", float(e[-2] + 0.75 * (e[-1] - e[-2])))):
            ends = scripted.step_ends(S, 0.0, t1, EPS)
            allpts = [0.0] + cand + [t1]
            grid, obs, idx_all = ssmcheck.union_grid(ends, allpts, EPS)
            amp = float((max(np.diff(grid)) / min(h for h in np.diff(ends))) ** q)
            # the union grid contains eps-sized gaps, which are harmless (prediction over a tiny step); the amplification that matters is that of the step grid
            amp = float((max(np.diff(ends)) / min(np.diff(ends))) ** q)
            try:
                res, sm, G = _reference(case, C, grid, obs, tc.reshape(-1), std0)
            except gauss.Degenerate:
                continue
            slack = ssmcheck.scale_slack(res)[-1]
            hs_all = _local_steps_for(grid, obs)
            full = None
            for rsz in range(len(cand), -1, -1):
                for sub in itertools.combinations(range(len(cand)), rsz):
                    save_at = [0.0] + [cand[i] for i in sub] + [t1]
                    idxs = [idx_all[0]] + [idx_all[1 + i] for i in sub] + [idx_all[-1]]
                    Sp, rp = np.array(S + [S[-1]]), np.array(r + [0])
                    out = prog(jnp.asarray(C), jnp.asarray(save_at), jnp.asarray(tc), jnp.ones(d), 0.0, jnp.asarray(Sp), jnp.asarray(rp), scripted.first_dt(Sp, rp), EPS)
                    out = {k: (np.asarray(v) if k != "post" else v) for k, v in out.items()}
                    n_sub += 1
                    n_nontriv += 1 if rsz else 0
                    tag = f"S={S} r={r} ending={ending} save_at={save_at}"
                    want_t = [grid[i] for i in idxs]
                    if len(out["t"]) != len(want_t) or not np.allclose(out["t"], want_t, rtol=0, atol=EPS):
                        fails.append(core.fail("times", f"{tag}: reported {out['t']} expected {want_t}"))
                        continue
                    want_n = [_num_steps_at(ends, s) for s in save_at[1:]]
                    if list(out["num_steps"]) != want_n:
                        fails.append(core.fail("num_steps", f"{tag}: {list(out['num_steps'])} vs {want_n}"))
                    refs = [(sm[i] if smooth else res.filt[i]) for i in idxs]
                    hs = [hs_all[i] for i in idxs]
                    K = len(idxs)
                    ssmcheck.compare_marginals(fails, tag, out["mean"], out["cov"], refs, res, q, d, hs, [amp] * K, [slack] * K, wk)
                    osc = out["output_scale"]
                    ssmcheck.compare_scales(fails, tag, osc, res, idxs[-osc.shape[0]:], [amp] * K, wk)
                    n_vals += K
                    if full is None:
                        full = (sub, out)
                    else:
                        # direct A-subset-B agreement, implementation against implementation
                        fsub, fout = full
                        for pos, i in enumerate(sub):
                            fpos = 1 + fsub.index(i)
                            a, b = out["mean"][1 + pos], fout["mean"][fpos]
                            ca, cb = out["cov"][1 + pos], fout["cov"][fpos]
                            tolm = 1e-7 * amp * (np.abs(b) + np.sqrt(np.abs(np.diag(cb))) + 1e-300)
                            if np.any(np.abs(a - b) > tolm) or out["num_steps"][pos] != fout["num_steps"][fpos - 1]:
                                fails.append(core.fail("subset_differs_from_superset", f"{tag} checkpoint {cand[i]}: {a[:d]} vs {b[:d]}"))
                    if sample is None and rsz == len(cand):
                        sample = dict(history=dict(S=S, r=r), ending=ending, step_ends=[float(x) for x in ends], candidates=cand, reported_t=[float(x) for x in out["t"]],
                                      num_steps=[int(x) for x in out["num_steps"]])
                    if len(fails) > 12:
                        break
                if len(fails) > 12:
                    break
            if len(fails) > 12:
                break
        if len(fails) > 12:
            break
    fails = ssmcheck.dedup(fails)
    return core.result(case, fails, transitions=n_vals, traces=n_sub, states=n_sub, outcome="ok" if not fails else "|".join(sorted(f["kind"] for f in fails)),
                       dev=max(wk.values(), default=0.0), sample=sample, dev_by_kind=wk, nontrivial=n_nontriv > 0)


def _local_steps_for(grid, obs):
    """Scaling step for each union-grid point: the size of the solver step that contains it."""
    ends = [t for t, o in zip(grid, obs) if o]
    out = []
    for t in grid:
        k = next((i for i, e in enumerate(ends) if e >= t), len(ends) - 1)
        k = max(k, 1)
        out.append(ends[k] - ends[k - 1])
    return out


def _every_step(case, cfg, C, tc, S, r, t1, real_error=None, tol=None, dt0=None):
    import jax.numpy as jnp
    from probdiffeq import probdiffeq
    from probdiffeq.util import test_util

    from mc import impl, scripted

    d, m = case["d"], case["m"]
    ssm = impl.SSM[case["ssm"]]()
    prior = impl.make_prior(cfg, ssm, jnp.asarray(tc), jnp.ones(d))
    con = impl.make_constraint(ssm, jnp.asarray(C), m, case["lin"])
    solver = impl.make_solver(cfg, con)
    if real_error:
        err = probdiffeq.error_residual_std(constraint=con)
        solve = test_util.solve_adaptive_save_every_step(solver, err, clip_dt=False)
        sol = solve(prior, 0.0, t1, atol=tol, rtol=tol, dt0=dt0, eps=1e-8)
    else:
        Sj, rj = jnp.asarray(S), jnp.asarray(r)
        solve = test_util.solve_adaptive_save_every_step(solver, scripted.ScriptErr(Sj), control=scripted.ScriptCtl(Sj, rj), clip_dt=False)
        sol = solve(prior, 0.0, t1, atol=1.0, rtol=1.0, dt0=scripted.first_dt(S, r), eps=EPS)
    return solver, sol


def _run_offgrid(case):
    import jax.numpy as jnp

    from mc import impl, ssmcheck
    from mc.refmodel import gauss

    tier = case["tier"]
    d, m, q = case["d"], case["m"], case["q"]
    C = alphabets.fields(d, m, tier)[case["field"]]
    tc = ssmcheck.mean0(C, d, m, q, case["init_id"])
    cfg = _cfg(case)
    std0 = impl.init_std(cfg, q, d)
    fails, wk = [], {}
    n = 0
    sample = None
    smooth = case["strategy"] != "filter"
    for S, r in histories(tier)[:3]:
        e = np.concatenate([[0.0], np.cumsum(S)])
        t1 = float(e[-2] + 0.75 * (e[-1] - e[-2]))
        solver, sol = _every_step(case, cfg, C, tc, S, r, t1)
        ts = [float(x) for x in sol.t]
        # query points strictly inside every reported interval (two per interval)
        queries = []
        for a, b in zip(ts[:-1], ts[1:]):
            queries += [a + 0.25 * (b - a), a + 0.75 * (b - a)]
        ends = [float(x) for x in e]
        grid, obs, idxs = ssmcheck.union_grid(ends, queries + [t1], EPS)
        res, sm, G = _reference(case, C, grid, obs, tc.reshape(-1), std0)
        amp = float((max(np.diff(ends)) / min(np.diff(ends))) ** q)
        slack = ssmcheck.scale_slack(res)[-1]
        hs_all = _local_steps_for(grid, obs)
        for qi, tq in enumerate(queries):
            est = solver.offgrid_marginals(jnp.asarray(tq), solution=sol)
            mean, cov = est.to_multivariate_normal()
            i = idxs[qi]
            ref = sm[i] if smooth else res.filt[i]
            ssmcheck.compare_marginals(fails, f"S={S} r={r} offgrid t={tq}", [np.asarray(mean)], [np.asarray(cov)], [ref], res, q, d, [hs_all[i]], [amp], [slack], wk, "offgrid_")
            n += 1
        if sample is None:
            sample = dict(history=dict(S=S, r=r), reported_t=ts, queries=queries[:4])
        if len(fails) > 8:
            break
    fails = ssmcheck.dedup(fails)
    return core.result(case, fails, transitions=n, traces=n, states=n, outcome="ok" if not fails else "|".join(sorted(f["kind"] for f in fails)),
                       dev=max(wk.values(), default=0.0), sample=sample, dev_by_kind=wk)


def _run_terminal(case):
    """solve_adaptive_terminal_values(clip) == last entry of solve_adaptive_save_at(clip) with save_at=[t0,t1], bitwise."""
    import jax
    import jax.numpy as jnp
    from probdiffeq import ivpsolve, probdiffeq

    from mc import impl, ssmcheck

    tier = case["tier"]
    d, m, q = case["d"], case["m"], case["q"]
    C = alphabets.fields(d, m, tier)[case["field"]]
    tc = ssmcheck.mean0(C, d, m, q, case["init_id"])
    cfg = _cfg(case)
    fails = []
    n = 0
    sample = None
    for clip in (True, False):
        for tol, dt0 in ((1e-2, 0.5), (1e-4, 0.01)):
            for t1 in (0.75, 1.0 + 2.0 ** -12):
                ssm = impl.SSM[case["ssm"]]()
                prior = impl.make_prior(cfg, ssm, jnp.asarray(tc), jnp.ones(d))
                con = impl.make_constraint(ssm, jnp.asarray(C), m, case["lin"])
                solver = impl.make_solver(cfg, con)
                err = probdiffeq.error_residual_std(constraint=con)
                a = jax.jit(ivpsolve.solve_adaptive_terminal_values(solver=solver, error=err, clip_dt=clip))(prior, t0=0.0, t1=t1, atol=tol, rtol=tol, dt0=dt0)
                b = jax.jit(ivpsolve.solve_adaptive_save_at(solver=solver, error=err, clip_dt=clip, warn=False))(prior, save_at=jnp.asarray([0.0, t1]), atol=tol, rtol=tol, dt0=dt0)
                ma, ca = a.u.to_multivariate_normal()
                mb, cb = b.u.to_multivariate_normal()
                n += 1
                tag = f"clip={clip} tol={tol} dt0={dt0} t1={t1}"
                if not (np.array_equal(np.asarray(ma), np.asarray(mb)[-1]) and np.array_equal(np.asarray(ca), np.asarray(cb)[-1])):
                    fails.append(core.fail("terminal_values_differ_from_save_at", f"{tag}: {np.asarray(ma)[:d]} vs {np.asarray(mb)[-1][:d]}"))
                if int(a.num_steps) != int(b.num_steps[-1]) or not np.array_equal(np.asarray(a.output_scale), np.asarray(b.output_scale)[-1]):
                    fails.append(core.fail("terminal_values_differ_from_save_at", f"{tag}: num_steps/output_scale {int(a.num_steps)} vs {int(b.num_steps[-1])}"))
                if abs(float(a.t) - t1) > 1e-8:
                    fails.append(core.fail("times", f"{tag}: terminal t {float(a.t)}"))
                if sample is None:
                    sample = dict(tag=tag, num_steps=int(a.num_steps), mean=[float(x) for x in np.asarray(ma)[:d]])
    fails = ssmcheck.dedup(fails)
    return core.result(case, fails, transitions=n, traces=n, states=n, outcome="ok" if not fails else "|".join(sorted(f["kind"] for f in fails)), sample=sample)


def _run_natural(case):
    """Tolerance-driven histories: the step grid is taken from a save-every-step run of the filter with the same
    configuration (the error estimate does not depend on the strategy); checkpoint values of the save_at run with the
    real error estimator must equal the reference interpolation on that grid, for a checkpoint set and a superset."""
    import jax
    import jax.numpy as jnp
    from probdiffeq import ivpsolve, probdiffeq

    from mc import impl, ssmcheck

    tier = case["tier"]
    d, m, q = case["d"], case["m"], case["q"]
    C = alphabets.fields(d, m, tier)[case["field"]]
    tc = ssmcheck.mean0(C, d, m, q, case["init_id"])
    cfg = _cfg(case)
    std0 = impl.init_std(cfg, q, d)
    fails, wk = [], {}
    n = 0
    sample = None
    smooth = case["strategy"] != "filter"
    eps = 1e-8
    for tol, dt0 in ((1e-2, 0.5), (1e-4, 0.01)) if tier == "quick" else ((1e-2, 0.5), (1e-2, 0.01), (1e-4, 0.5), (1e-4, 0.01), (1e-6, 0.01)):
        t1 = 0.625
        cfg_f = dict(cfg, strategy="filter")
        _, sol_steps = _every_step(dict(case, strategy="filter"), cfg_f, C, tc, None, None, 4.0, real_error=True, tol=tol, dt0=dt0)
        ends_all = [float(x) for x in sol_steps.t]
        # the every-step run was driven to a far final time; keep the step ends up to the first one at/after t1
        k_last = next(k for k, e in enumerate(ends_all) if not (e + eps < t1))
        ends = ends_all[: k_last + 1]
        if len(ends) < 3 or len(ends) > 60:
            continue
        mid = ends[len(ends) // 2]
        sets = {"A": [0.0, 0.3, t1], "B": [0.0, 0.1, 0.3, 0.3 + 2.0 ** -30, mid, 0.5, t1]}
        sets = {k: sorted(set(v)) for k, v in sets.items()}
        ssm = impl.SSM[case["ssm"]]()
        prior = impl.make_prior(cfg, ssm, jnp.asarray(tc), jnp.ones(d))
        con = impl.make_constraint(ssm, jnp.asarray(C), m, case["lin"])
        solver = impl.make_solver(cfg, con)
        err = probdiffeq.error_residual_std(constraint=con)
        outs = {}
        for name, save_at in sets.items():
            sol = jax.jit(ivpsolve.solve_adaptive_save_at(solver=solver, error=err, clip_dt=False, warn=False))(prior, save_at=jnp.asarray(save_at), atol=tol, rtol=tol, dt0=dt0, eps=eps)
            mean, cov = sol.u.to_multivariate_normal()
            outs[name] = dict(mean=np.asarray(mean), cov=np.asarray(cov), t=np.asarray(sol.t), num_steps=np.asarray(sol.num_steps), output_scale=np.asarray(sol.output_scale))
            grid, obs, idxs = ssmcheck.union_grid(ends, save_at, eps)
            res, sm, G = _reference(case, C, grid, obs, tc.reshape(-1), std0)
            amp = float((max(np.diff(ends)) / min(np.diff(ends))) ** q)
            if amp > 1e6:
                continue
            slack = ssmcheck.scale_slack(res)[-1]
            hs_all = _local_steps_for(grid, obs)
            tag = f"tol={tol} dt0={dt0} set={name} steps={len(ends) - 1}"
            refs = [(sm[i] if smooth else res.filt[i]) for i in idxs]
            K = len(idxs)
            ssmcheck.compare_marginals(fails, tag, outs[name]["mean"], outs[name]["cov"], refs, res, q, d, [hs_all[i] for i in idxs], [amp] * K, [slack] * K, wk)
            want_n = [next(k for k, e in enumerate(ends) if not (e + eps < s)) for s in save_at[1:]]
            if list(outs[name]["num_steps"]) != want_n:
                fails.append(core.fail("num_steps", f"{tag}: {list(outs[name]['num_steps'])} vs {want_n}"))
            n += K
        if sample is None:
            sample = dict(tol=tol, dt0=dt0, num_steps=len(ends) - 1, step_ends=ends[:6])
    fails = ssmcheck.dedup(fails)
    return core.result(case, fails, transitions=n, traces=n, states=max(n, 1), outcome="ok" if not fails else "|".join(sorted(f["kind"] for f in fails)),
                       dev=max(wk.values(), default=0.0), sample=sample, dev_by_kind=wk)


def merge_coverage(results):
    wk = {}
    for r in results:
        for k, v in (r.get("dev_by_kind") or {}).items():
            wk[k] = max(wk.get(k, 0.0), v)
    return dict(worst_deviation_as_fraction_of_tolerance_by_observable=wk)
