"""C08 - Gaussian conditional algebra is exact in every factorisation.

Engine E3: breadth-first exploration of operation sequences on the real Normal / LatentCond objects of the
three factorisations. A state is (current Gaussian x, current conditional c) plus two fixed auxiliary
conditionals; a transition is one real method call (marginalise, revert with solve_triu / lstsq_svd, merge on
either side, preconditioner_apply, rescale, apply_flat, bayes_rule_tree); all sequences up to the depth
bound are executed from every initial state (shapes x covariance-factor kinds x scaling kinds x offsets).
The dense reference model (mean, covariance, effective A/b/Q in 60-digit arithmetic) is stepped in lock-step
and compared after every transition; observers (std, logpdf, whitened residual, dense conversion,
identity_conditional, to_derivative, bayes_rule_and_logpdf / _and_residual_whitened_rms) are evaluated in every
reached state. Reversal under singular innovation covariance is checked through the joint law of (x, y).
"""

import itertools

import numpy as np

from mc import core

LEVEL = "model_checking"
ENGINE = "E3 xops"
TECHNIQUE = "breadth-first enumeration of all type-correct operation sequences (depth <= 3) on the real Gaussian algebra objects from a catalogue of initial states, with a dense 60-digit reference model stepped in lock-step (explicit-state exploration with a reference-model oracle)"
LEVEL_TEXT = ("All operation sequences up to the depth bound over a 10-letter alphabet are executed from every initial state of the catalogue in all three factorisations; "
              "after every transition the dense embedding of the real objects must equal the dense formulas applied to the reference state.")
LEVEL_NOTE = ("Trusted: mpmath dense formulas. Comparison is norm-wise in the latent (preconditioned) coordinates, tolerance 1e-9, which is what a backward-stable square-root "
              "implementation guarantees; entrywise gains are never asserted for singular innovations (joint law instead). Objects are built through the internal constructors.")
TIMEOUT_S = {"quick": 1500, "thorough": 7200}
TAU = 1e-9

OPS = ["marg", "revert_triu", "revert_lstsq", "merge_a", "merge_b", "precon", "rescale", "apply", "bayes_triu", "bayes_lstsq"]


def enumerate_cases(tier, seed):
    quick = tier == "quick"
    shapes = [(2, 1), (3, 2), (2, 3)] if quick else [(1, 1), (2, 1), (3, 2), (2, 3), (4, 2), (5, 3), (9, 1), (3, 5)]
    cov_kinds = ["well", "illcond", "rank_n-1", "rank1", "zero"]
    scal_kinds = ["ones", "taylor_small", "taylor_big", "arbitrary"]
    offsets = ["zero", "nonzero"]
    depth = 2 if quick else 3
    cases = []
    for ssm in ("dense", "isotropic", "blockdiag"):
        for (n, d), ck, sk, off in itertools.product(shapes, cov_kinds, scal_kinds, offsets):
            if not quick and n * d > 12 and (ck not in ("well", "rank1") or sk == "arbitrary"):
                continue
            # depth 3 for state dimension <= 6: at n*d = 8 with Taylor scalings spanning 1e-6 three chained gain computations lose
            # ~1e-8 to rounding, which the per-step conditioning allowance (eps x cond(S)) does not bound
            dep = depth if n * d <= 6 else min(depth, 2)
            cases.append(dict(id=f"ops/{ssm}/n{n}d{d}/{ck}/{sk}/{off}/depth{dep}", group=f"{ssm}/{n}{d}", part="ops", ssm=ssm, n=n, d=d, cov=ck, scal=sk, offset=off, depth=dep,
                              seed=seed, weight=(len(OPS) ** dep) * n * d // 10 + 1))
        for (n, d) in shapes:
            for k in range(1, n + 1):
                cases.append(dict(id=f"observe/{ssm}/n{n}d{d}/rows{k}", group=f"{ssm}/{n}{d}", part="observe", ssm=ssm, n=n, d=d, rows=k, seed=seed, weight=20))
        if not quick or True:
            for (n, d) in shapes[:3]:
                cases.append(dict(id=f"batched/{ssm}/n{n}d{d}", group=f"{ssm}/{n}{d}", part="batched", ssm=ssm, n=n, d=d, seed=seed, weight=20))
    return cases


def describe(tier, seed):
    quick = tier == "quick"
    return dict(
        rule="case = (factorisation, shape n x d, covariance-factor kind, scaling kind, offset kind); inside: BFS over all operation sequences up to the depth bound; "
             "observe part: observation models with 1..n observed rows (revert, Bayes rule, logpdf, whitened RMS, to_derivative) incl. singular innovations; batched part: vmap of every operation",
        exhaustive=True,
        alphabets=dict(ops=OPS, cov_kinds=["well", "illcond(1e12)", "rank n-1", "rank 1", "zero"], scalings=["ones", "taylor h=1e-2", "taylor h=1e2", "arbitrary positive"],
                       offsets=["zero", "nonzero"], factorisations=["dense", "isotropic", "blockdiag"]),
        bounds=dict(depth=2 if quick else 3, tolerance=TAU),
        assumptions=["a singular innovation covariance is only combined with lstsq_svd and judged through the joint law (with solve_triu the operation is undefined, not wrong)",
                     "numeric palettes are fixed tables indexed by VERIF_SEED for the quick tier"],
    )


# ------------------------------------------------------------------------------------------------
# palettes (deterministic, no randomness at run time)
# ------------------------------------------------------------------------------------------------


def _table(rows, cols, salt):
    """Deterministic 'generic' matrix with entries in [-1, 1] (no special structure)."""
    out = np.empty((rows, cols))
    for i in range(rows):
        for j in range(cols):
            x = np.sin(1.0 + 1.7 * i + 2.3 * j + 0.9 * salt) * 43758.5453
            out[i, j] = 2 * (x - np.floor(x)) - 1
    return out


def _chol_kind(n, kind, salt):
    L = np.tril(_table(n, n, salt)) + 1.5 * np.eye(n)
    if kind == "well":
        return L
    if kind == "illcond":
        return L * np.logspace(0, -6, n)[None, :]
    if kind == "rank_n-1":
        L = L.copy()
        L[:, -1] = 0.0
        return L
    if kind == "rank1":
        out = np.zeros((n, n))
        out[:, 0] = L[:, 0]
        return out
    if kind == "zero":
        return np.zeros((n, n))
    raise ValueError(kind)


def _scaling(n, kind, salt):
    if kind == "ones":
        return np.ones(n)
    if kind == "taylor_small":
        h = 1e-2
    elif kind == "taylor_big":
        h = 1e2
    else:
        return 10.0 ** _table(1, n, salt + 5)[0]
    from math import factorial

    return np.array([h ** (n - 1 - i) / factorial(n - 1 - i) for i in range(n)])


# ------------------------------------------------------------------------------------------------
# reference objects (dense, mpf)
# ------------------------------------------------------------------------------------------------


def _lat_scale(cov, w):
    return max(max(float(cov[i, i]) / float(w[i]) ** 2 for i in range(cov.shape[0])), 0.0)


class RefRV:
    """hint = latent covariance scale of the inputs this variable was computed from (a posterior of an exactly observed
    quantity has reference covariance 0, its rounding residue is relative to the *prior* scale)."""

    def __init__(self, mean, cov, w, hint=0.0, cond=1.0):
        self.mean, self.cov, self.w, self.hint, self.cond = mean, cov, w, hint, cond


class RefCond:
    """y | x ~ N(A x + b, Q) in *effective* (scalings applied) dense form; w_in / w_out are the natural
    coordinate scales (1/to_latent, to_observed)."""

    def __init__(self, A, b, Q, w_in, w_out, hint=0.0, cond=1.0):
        self.A, self.b, self.Q, self.w_in, self.w_out, self.hint, self.cond = A, b, Q, w_in, w_out, hint, cond


def ref_marg(c, x):
    return RefRV(c.A @ x.mean + c.b, _sym(c.A @ x.cov @ c.A.T + c.Q), c.w_out, cond=max(x.cond, c.cond))


def _sym(P):
    return (P + P.T) / 2


def ref_revert(c, x):
    from mc.refmodel import gauss

    y = ref_marg(c, x)
    C = x.cov @ c.A.T
    try:
        G = gauss.solve(y.cov, C.T).T
        singular = False
    except ZeroDivisionError:
        G = C @ gauss.pinv_sym(y.cov)
        singular = True
    b = x.mean - G @ y.mean
    Q = _sym(x.cov - G @ y.cov @ G.T)
    # conditioning of the innovation covariance in latent coordinates: a backward-stable gain has error ~ eps * cond
    Sl = _f(y.cov) / np.outer(y.w, y.w)
    ev = np.linalg.eigvalsh((Sl + Sl.T) / 2)
    cnd = float(ev[-1] / max(ev[0], 1e-300)) if ev[-1] > 0 else 1.0
    y.cond = max(y.cond, 1.0)
    return y, RefCond(G, b, Q, c.w_out, c.w_in, hint=_lat_scale(x.cov, c.w_in), cond=max(x.cond, c.cond, cnd)), singular


def ref_merge(outer, inner):
    return RefCond(outer.A @ inner.A, outer.A @ inner.b + outer.b, _sym(outer.A @ inner.Q @ outer.A.T + outer.Q), inner.w_in, outer.w_out,
                   hint=max(outer.hint, 0.0), cond=max(outer.cond, inner.cond))


def ref_apply(c, pt):
    return RefRV(c.A @ pt + c.b, c.Q.copy(), c.w_out, hint=c.hint, cond=c.cond)


def ref_bayes(c, data, x):
    y, bwd, singular = ref_revert(c, x)
    return RefRV(bwd.A @ data + bwd.b, bwd.Q.copy(), x.w, hint=bwd.hint, cond=bwd.cond), singular


# ------------------------------------------------------------------------------------------------
# construction of real objects and their dense embeddings
# ------------------------------------------------------------------------------------------------


class Factory:
    """Builds real Normal / LatentCond objects of one factorisation for state shape (n, d) and embeds them densely
    (coefficient-major ordering: index = coefficient * d + dimension)."""

    def __init__(self, ssm, n, d):
        import jax.numpy as jnp
        from probdiffeq._probdiffeq import ssm_impl_blockdiag, ssm_impl_dense, ssm_impl_isotropic

        self.ssm, self.n, self.d, self.jnp = ssm, n, d, jnp
        ex = [jnp.zeros((d,)) for _ in range(n)]
        if ssm == "dense":
            self.N, self.Cn = ssm_impl_dense.DenseNormal, ssm_impl_dense.DenseLatentCond
            self.tf = ssm_impl_dense.DenseTreeFlatten.from_example(ex)
        elif ssm == "isotropic":
            self.N, self.Cn = ssm_impl_isotropic.IsotropicNormal, ssm_impl_isotropic.IsotropicLatentCond
            self.tf = ssm_impl_isotropic.IsotropicTreeFlatten.from_example(ex)
        else:
            self.N, self.Cn = ssm_impl_blockdiag.BlockDiagNormal, ssm_impl_blockdiag.BlockDiagLatentCond
            self.tf = ssm_impl_blockdiag.BlockDiagTreeFlatten.from_example(ex)

    # --- parameters in the factorisation's own layout, from generic tables
    def rv(self, cov_kind, offset, salt):
        n, d, jnp = self.n, self.d, self.jnp
        if self.ssm == "dense":
            L = _chol_kind(n * d, cov_kind, salt)
            m = _table(1, n * d, salt + 1)[0] if offset == "nonzero" else np.zeros(n * d)
            return self.N(jnp.asarray(m), jnp.asarray(L), self.tf)
        if self.ssm == "isotropic":
            L = _chol_kind(n, cov_kind, salt)
            m = _table(n, d, salt + 1) if offset == "nonzero" else np.zeros((n, d))
            return self.N(jnp.asarray(m), jnp.asarray(L), self.tf)
        L = np.stack([_chol_kind(n, cov_kind, salt + 10 * k) for k in range(d)])
        m = _table(d, n, salt + 1) if offset == "nonzero" else np.zeros((d, n))
        return self.N(jnp.asarray(m), jnp.asarray(L), self.tf)

    def cond(self, cov_kind, scal_kind, offset, salt, rows=None):
        """Square conditional (rows=None) or an observation model with `rows` observed coefficients."""
        n, d, jnp = self.n, self.d, self.jnp
        k = n if rows is None else rows
        ex_out = [jnp.zeros((d,)) for _ in range(k)]
        if self.ssm == "dense":
            from probdiffeq._probdiffeq import ssm_impl_dense

            tf_out = ssm_impl_dense.DenseTreeFlatten.from_example(ex_out)
            A = _table(k * d, n * d, salt + 2) + (np.eye(k * d, n * d))
            Lq = _chol_kind(k * d, cov_kind, salt + 3)
            b = _table(1, k * d, salt + 4)[0] if offset == "nonzero" else np.zeros(k * d)
            p_out = np.repeat(_scaling(k, scal_kind, salt), d)
            p_in = np.repeat(1.0 / _scaling(n, scal_kind, salt + 1), d)
            noise = self.N(jnp.asarray(b), jnp.asarray(Lq), tf_out)
            return self.Cn(jnp.asarray(A), noise, to_latent=jnp.asarray(p_in), to_observed=jnp.asarray(p_out))
        if self.ssm == "isotropic":
            from probdiffeq._probdiffeq import ssm_impl_isotropic

            tf_out = ssm_impl_isotropic.IsotropicTreeFlatten.from_example(ex_out)
            A = _table(k, n, salt + 2) + np.eye(k, n)
            Lq = _chol_kind(k, cov_kind, salt + 3)
            b = _table(k, d, salt + 4) if offset == "nonzero" else np.zeros((k, d))
            p_out = _scaling(k, scal_kind, salt)
            p_in = 1.0 / _scaling(n, scal_kind, salt + 1)
            noise = self.N(jnp.asarray(b), jnp.asarray(Lq), tf_out)
            return self.Cn(jnp.asarray(A), noise, to_latent=jnp.asarray(p_in), to_observed=jnp.asarray(p_out))
        from probdiffeq._probdiffeq import ssm_impl_blockdiag

        tf_out = ssm_impl_blockdiag.BlockDiagTreeFlatten.from_example(ex_out)
        A = np.stack([_table(k, n, salt + 2 + 7 * j) + np.eye(k, n) for j in range(d)])
        Lq = np.stack([_chol_kind(k, cov_kind, salt + 3 + 7 * j) for j in range(d)])
        b = _table(d, k, salt + 4) if offset == "nonzero" else np.zeros((d, k))
        p_out = np.stack([_scaling(k, scal_kind, salt)] * d)
        p_in = np.stack([1.0 / _scaling(n, scal_kind, salt + 1)] * d)
        noise = self.N(jnp.asarray(b), jnp.asarray(Lq), tf_out)
        return self.Cn(jnp.asarray(A), noise, to_latent=jnp.asarray(p_in), to_observed=jnp.asarray(p_out))

    def point(self, k, salt):
        """A point in the layout of a k-coefficient variable."""
        d = self.d
        if self.ssm == "dense":
            return self.jnp.asarray(_table(1, k * d, salt)[0])
        if self.ssm == "isotropic":
            return self.jnp.asarray(_table(k, d, salt))
        return self.jnp.asarray(_table(d, k, salt))

    # --- dense embeddings (float64 numpy)
    def dense_vec(self, v):
        v = np.asarray(v)
        if self.ssm == "dense":
            return v.reshape(-1)
        if self.ssm == "isotropic":
            return v.reshape(-1)
        return v.T.reshape(-1)

    def dense_rv(self, rv):
        m = self.dense_vec(rv.mean_flat)
        L = np.asarray(rv.cholesky_flat)
        d = self.d
        if self.ssm == "dense":
            return m, L @ L.T
        if self.ssm == "isotropic":
            return m, np.kron(L @ L.T, np.eye(d))
        k = L.shape[-1]
        P = np.zeros((k * d, k * d))
        for j in range(d):
            idx = np.arange(k) * d + j
            P[np.ix_(idx, idx)] = L[j] @ L[j].T
        return m, P

    def dense_cond(self, c):
        """Effective dense (A, b, Q, w_in, w_out) of a real conditional."""
        d = self.d
        A, tl, to = np.asarray(c.A), np.asarray(c.to_latent), np.asarray(c.to_observed)
        b, L = np.asarray(c.noise.mean_flat), np.asarray(c.noise.cholesky_flat)
        if self.ssm == "dense":
            return to[:, None] * A * tl[None, :], to * b, (np.abs(to)[:, None] * L) @ (np.abs(to)[:, None] * L).T, 1 / tl, to
        if self.ssm == "isotropic":
            A1 = to[:, None] * A * tl[None, :]
            L1 = np.abs(to)[:, None] * L
            return np.kron(A1, np.eye(d)), (to[:, None] * b).reshape(-1), np.kron(L1 @ L1.T, np.eye(d)), np.repeat(1 / tl, d), np.repeat(to, d)
        ko, ki = A.shape[1], A.shape[2]
        Ad, Qd, bd = np.zeros((ko * d, ki * d)), np.zeros((ko * d, ko * d)), np.zeros(ko * d)
        wi, wo = np.zeros(ki * d), np.zeros(ko * d)
        for j in range(d):
            io, ii = np.arange(ko) * d + j, np.arange(ki) * d + j
            Ad[np.ix_(io, ii)] = to[j][:, None] * A[j] * tl[j][None, :]
            L1 = np.abs(to[j])[:, None] * L[j]
            Qd[np.ix_(io, io)] = L1 @ L1.T
            bd[io] = to[j] * b[j]
            wi[ii], wo[io] = 1 / tl[j], to[j]
        return Ad, bd, Qd, wi, wo


def to_ref_rv(fac, rv, w=None):
    from mc.refmodel import gauss

    m, P = fac.dense_rv(rv)
    return RefRV(gauss.M(m), gauss.M(P), np.ones(len(m)) if w is None else w)


def to_ref_cond(fac, c):
    from mc.refmodel import gauss

    A, b, Q, wi, wo = fac.dense_cond(c)
    return RefCond(gauss.M(A), gauss.M(b), gauss.M(Q), np.abs(wi), np.abs(wo))


# ------------------------------------------------------------------------------------------------
# comparison (norm-wise in latent coordinates)
# ------------------------------------------------------------------------------------------------


def _f(a):
    return np.array([[float(v) for v in row] for row in a]) if a.ndim == 2 else np.array([float(v) for v in a])


def dev_rv(fac, rv, ref):
    m, P = fac.dense_rv(rv)
    if not (np.all(np.isfinite(m)) and np.all(np.isfinite(P))):
        return float("inf"), float("inf")
    w = ref.w
    mr, Pr = _f(ref.mean), _f(ref.cov)
    Mx = max(np.max(np.diag(Pr) / w ** 2), 1e-6 * ref.hint, 0.0)
    mscale = np.max(np.abs(mr) / w) + np.sqrt(max(Mx, ref.hint))
    dm = np.max(np.abs(m - mr) / (w * max(mscale, 1e-300)))
    dP = np.max(np.abs(P - Pr) / (np.outer(w, w) * max(Mx, 1e-300))) if (Mx > 0 or np.any(P != 0)) else 0.0
    return float(dm), float(dP)


def dev_cond(fac, c, ref):
    A, b, Q, wi, wo = fac.dense_cond(c)
    if not (np.all(np.isfinite(A)) and np.all(np.isfinite(b)) and np.all(np.isfinite(Q))):
        return float("inf")
    Ar, br, Qr = _f(ref.A), _f(ref.b), _f(ref.Q)
    wi, wo = ref.w_in, ref.w_out
    Alat = Ar * wi[None, :] / wo[:, None]
    sA = max(np.max(np.abs(Alat)), 1e-300)
    dA = np.max(np.abs(A - Ar) * wi[None, :] / wo[:, None]) / sA
    Mq = max(np.max(np.diag(Qr) / wo ** 2), 1e-6 * ref.hint)
    sb = max(np.max(np.abs(br) / wo) + np.sqrt(max(Mq, 0.0)) + sA, 1e-300)
    db = np.max(np.abs(b - br) / wo) / sb
    dQ = np.max(np.abs(Q - Qr) / np.outer(wo, wo)) / max(Mq, sb ** 2 * 1e-14, 1e-300)
    return float(max(dA, db, dQ))


# ------------------------------------------------------------------------------------------------


def run_cases(cases):
    from mc import jaxenv

    jaxenv.setup()
    for case in cases:
        fn = {"ops": _run_ops, "observe": _run_observe, "batched": _run_batched}[case["part"]]
        yield core.guarded(case, fn)


def _apply_op(op, fac, x, c, ca, cb, salt):
    """Apply one real operation; returns (x', c')."""
    from probdiffeq.backend import linalg

    jnp = fac.jnp
    if op == "marg":
        return c.marginalise(x), c
    if op in ("revert_triu", "revert_lstsq"):
        obs, bwd = c.revert(x, solve_triu=linalg.solve_triu if op == "revert_triu" else linalg.lstsq_svd)
        return obs, bwd
    if op == "merge_a":
        return x, c.merge(ca)
    if op == "merge_b":
        return x, cb.merge(c)
    if op == "precon":
        return x, c.preconditioner_apply()
    if op == "rescale":
        f = jnp.asarray(3.0) if fac.ssm != "blockdiag" else jnp.asarray([3.0, 0.5, 2.0, 1.5, 0.25][: fac.d])
        return x.rescale_cholesky(f), c.rescale_noise(f)
    if op == "apply":
        return c.apply_flat(fac.point(fac.n, salt + 11)), c
    if op in ("bayes_triu", "bayes_lstsq"):
        data = fac.N(fac.point(fac.n, salt + 12), 0 * c.noise.cholesky_flat, c.noise.tree_flatten).mean  # data as a tree
        return c.bayes_rule_tree(data, x, solve_triu=linalg.solve_triu if op == "bayes_triu" else linalg.lstsq_svd), c
    raise ValueError(op)


def _apply_ref(op, fac, x, c, ca, cb, salt):
    from mc.refmodel import gauss

    singular = False
    if op == "marg":
        return ref_marg(c, x), c, singular
    if op in ("revert_triu", "revert_lstsq"):
        y, bwd, singular = ref_revert(c, x)
        return y, bwd, singular
    if op == "merge_a":
        return x, ref_merge(c, ca), singular
    if op == "merge_b":
        return x, ref_merge(cb, c), singular
    if op == "precon":
        # same conditional, unit scalings; the natural coordinate scales of the variables are unchanged
        return x, RefCond(c.A, c.b, c.Q, c.w_in, c.w_out, hint=c.hint, cond=c.cond), singular
    if op == "rescale":
        f = np.full(fac.n * fac.d, 3.0) if fac.ssm != "blockdiag" else np.tile(np.array([3.0, 0.5, 2.0, 1.5, 0.25][: fac.d]), fac.n)
        F = gauss.M(np.diag(f))
        return RefRV(x.mean, F @ x.cov @ F, x.w, hint=9 * x.hint, cond=x.cond), RefCond(c.A, c.b, F @ c.Q @ F, c.w_in, c.w_out, hint=9 * c.hint, cond=c.cond), singular
    if op == "apply":
        pt = gauss.M(fac.dense_vec(fac.point(fac.n, salt + 11)))
        return ref_apply(c, pt), c, singular
    if op in ("bayes_triu", "bayes_lstsq"):
        data = gauss.M(fac.dense_vec(fac.point(fac.n, salt + 12)))
        r, singular = ref_bayes(c, data, x)
        return r, c, singular
    raise ValueError(op)


def _observers(fac, x, xr, fails, tag, salt):
    """Evaluate the read-only methods of a Normal on a reached state."""
    import mpmath

    from mc.refmodel import gauss

    m, P = fac.dense_rv(x)
    n_obs = 0
    # std
    std_tree = x.std
    import jax

    sd = np.concatenate([np.asarray(l).reshape(-1) for l in jax.tree.leaves(std_tree)])
    Pr = _f(xr.cov)
    want = np.sqrt(np.clip(np.diag(Pr), 0, None))
    if fac.ssm == "isotropic":
        want = want.reshape(-1, fac.d)[:, 0]
    w = xr.w if fac.ssm != "isotropic" else xr.w.reshape(-1, fac.d)[:, 0]
    scale = np.sqrt(max(np.max(np.diag(Pr) / xr.w ** 2), 0.0))
    tol_sd = max(1e-7, 1e2 * (TAU + 1e-13 * xr.cond))
    if sd.shape != want.shape or np.any(np.abs(sd - want) > tol_sd * w * max(scale, 1e-300) + 1e-300):
        fails.append(core.fail("std", f"{tag}: {sd} vs {want}"))
    n_obs += 1
    # to_multivariate_normal
    mm, PP = x.to_multivariate_normal()
    if not (np.allclose(np.asarray(mm), m, rtol=1e-13, atol=0) and np.allclose(np.asarray(PP), P, rtol=1e-12, atol=1e-300)):
        fails.append(core.fail("to_multivariate_normal", f"{tag}"))
    n_obs += 1
    # logpdf / whitened residual: only where the covariance is numerically nonsingular in latent coordinates
    Plat = Pr / np.outer(xr.w, xr.w)
    ev = np.linalg.eigvalsh((Plat + Plat.T) / 2)
    if ev[0] > 1e-6 * ev[-1] and ev[-1] > 0:
        k = len(m) // fac.d
        u = fac.point(k, salt + 21)
        u_tree = fac.N(u, 0 * x.cholesky_flat, x.tree_flatten).mean
        got = float(x.logpdf_tree(u_tree))
        ud = gauss.M(fac.dense_vec(u))
        wantl = float(gauss.logpdf(list(ud), list(xr.mean), xr.cov))
        cond = ev[-1] / ev[0]
        if not abs(got - wantl) <= 1e-9 * cond * (abs(wantl) + 1.0):
            fails.append(core.fail("logpdf", f"{tag}: {got} vs {wantl}"))
        gotr = np.atleast_1d(np.asarray(x.residual_whitened_rms_tree(u_tree)))
        r = ud - xr.mean
        if fac.ssm == "blockdiag":
            wantr = []
            for j in range(fac.d):
                idx = [i * fac.d + j for i in range(k)]
                rj = np.array([r[i] for i in idx], dtype=object)
                Pj = np.array([[xr.cov[a, b] for b in idx] for a in idx], dtype=object)
                wantr.append(float(mpmath.sqrt(gauss.whitened_sq(rj, Pj) / k)))
            wantr = np.array(wantr)
        else:
            wantr = np.array([float(mpmath.sqrt(gauss.whitened_sq(r, xr.cov) / len(m)))])
        if gotr.shape != wantr.shape or np.any(np.abs(gotr - wantr) > 1e-9 * cond * np.abs(wantr)):
            fails.append(core.fail("residual_whitened_rms", f"{tag}: {gotr} vs {wantr}"))
        n_obs += 2
    return n_obs


def _run_ops(case):
    from mc.refmodel import gauss

    fac = Factory(case["ssm"], case["n"], case["d"])
    salt = case["seed"] % 3
    x0 = fac.rv(case["cov"], case["offset"], salt)
    c0 = fac.cond("well" if case["cov"] in ("zero", "rank1", "rank_n-1") else case["cov"], case["scal"], case["offset"], salt + 20)
    ca = fac.cond("well", case["scal"], case["offset"], salt + 40)
    cb = fac.cond(case["cov"], case["scal"], "nonzero", salt + 60)
    x0r, c0r, car, cbr = to_ref_rv(fac, x0), to_ref_cond(fac, c0), to_ref_cond(fac, ca), to_ref_cond(fac, cb)
    fails = []
    n_trans = n_states = n_obs = 0
    worst = 0.0
    frontier = [((), x0, c0, x0r, c0r)]
    sample = None
    outcomes = set()
    for depth in range(case["depth"]):
        nxt = []
        for seq, x, c, xr, cr in frontier:
            for op in OPS:
                if case["cov"] == "illcond" and op.startswith(("revert", "bayes")):
                    # condition number 1e12: only backward-stable statements are asserted (joint law, observe part), never entrywise gains
                    continue
                seq2 = seq + (op,)
                tag = "->".join(seq2)
                xr2, cr2, singular = _apply_ref(op, fac, xr, cr, car, cbr, salt)
                if singular and op in ("revert_triu", "bayes_triu"):
                    continue  # undefined with a triangular solve (domain restriction)
                x2, c2 = _apply_op(op, fac, x, c, ca, cb, salt)
                n_trans += 1
                if singular:
                    # judge through the joint law of (x, y): Cov(x,y) = G S, mean_x = G m_y + b', Cov_x = G S G^T + Q'
                    if op == "revert_lstsq":
                        A2, b2, Q2, _, _ = fac.dense_cond(c2)
                        my, Py = fac.dense_rv(x2)
                        mx, Px = _f(xr.mean), _f(xr.cov)
                        Cxy = Px @ _f(cr.A).T
                        wx, wy = cr.w_in, cr.w_out
                        s = max(np.max(np.diag(Px) / wx ** 2), 1e-300)
                        e1 = np.max(np.abs(A2 @ Py - Cxy) / np.outer(wx, wy)) / max(np.sqrt(s * max(np.max(np.diag(Py) / wy ** 2), 1e-300)), 1e-300)
                        e2 = np.max(np.abs(A2 @ Py @ A2.T + Q2 - Px) / np.outer(wx, wx)) / s
                        e3 = np.max(np.abs(A2 @ my + b2 - mx) / wx) / max(np.max(np.abs(mx) / wx) + np.sqrt(s), 1e-300)
                        dev = float(max(e1, e2, e3))
                        worst = max(worst, dev / 1e-7)
                        if not dev <= 1e-7:
                            fails.append(core.fail("revert_joint_law_singular", f"{tag}: {e1:.2e} {e2:.2e} {e3:.2e}"))
                    outcomes.add("singular")
                    continue  # successors of a non-unique gain are not explored
                dm, dP = dev_rv(fac, x2, xr2)
                dc = dev_cond(fac, c2, cr2)
                # allowed deviation: TAU, plus the rounding of gains through ill-conditioned innovation covariances (eps * cond)
                ax_, ac_ = TAU + 1e-13 * xr2.cond, TAU + 1e-13 * cr2.cond
                if max(ax_, ac_) > 1e-4:
                    outcomes.add("illconditioned_gain")
                    continue  # condition number > 1e9: nothing can be asserted about gains in float64 (joint-law checks live in the observe part)
                worst = max(worst, dm / ax_, dP / ax_, dc / ac_)
                if not (dm <= ax_ and dP <= ax_):
                    fails.append(core.fail("rv_after_" + op, f"{tag}: mean dev {dm:.2e} cov dev {dP:.2e}"))
                if not dc <= ac_:
                    fails.append(core.fail("cond_after_" + op, f"{tag}: dev {dc:.2e}"))
                if depth == 0 or op in ("marg", "revert_lstsq", "apply", "bayes_lstsq", "rescale"):
                    n_obs += _observers(fac, x2, xr2, fails, tag, salt)
                n_states += 1
                outcomes.add(op)
                nxt.append((seq2, x2, c2, xr2, cr2))
                if sample is None and depth == 1:
                    sample = dict(sequence=list(seq2), mean=[float(v) for v in fac.dense_rv(x2)[0][:3]])
                if len(fails) > 15:
                    break
            if len(fails) > 15:
                break
        frontier = nxt
        if len(fails) > 15:
            break
    seen = {}
    for f in fails:
        seen.setdefault(f["kind"], f)
    return core.result(case, list(seen.values()), transitions=n_trans + n_obs, traces=n_trans, states=n_states, outcome="ok" if not fails else "|".join(sorted(seen)),
                       dev=worst, sample=sample)


def _run_observe(case):
    """Observation models with `rows` observed coefficients: revert / Bayes rule (+logpdf, +whitened RMS), to_derivative,
    identity_conditional, for every covariance kind incl. singular innovations."""
    import jax
    from probdiffeq.backend import linalg

    from mc.refmodel import gauss
    import mpmath

    fac = Factory(case["ssm"], case["n"], case["d"])
    jnp = fac.jnp
    n, d, k = case["n"], case["d"], case["rows"]
    salt = case["seed"] % 3
    fails = []
    n_tr = 0
    worst = 0.0
    sample = None
    for cov_kind, noise_kind, scal, off in itertools.product(["well", "illcond", "rank_n-1", "zero"], ["well", "zero"], ["ones", "taylor_small", "arbitrary"], ["zero", "nonzero"]):
        x = fac.rv(cov_kind, "nonzero", salt)
        o = fac.cond(noise_kind, scal, off, salt + 30, rows=k)
        xr, orr = to_ref_rv(fac, x), to_ref_cond(fac, o)
        yr, bwdr, singular = ref_revert(orr, xr)
        tag = f"x={cov_kind} noise={noise_kind} scal={scal} off={off}"
        obs, bwd = o.revert(x, solve_triu=linalg.lstsq_svd)
        n_tr += 1
        dm, dP = dev_rv(fac, obs, yr)
        worst = max(worst, dm / TAU, dP / TAU)
        if not (dm <= TAU and dP <= TAU):
            fails.append(core.fail("observed_marginal", f"{tag}: {dm:.2e} {dP:.2e}"))
        # joint law from (obs, bwd)
        A2, b2, Q2, _, _ = fac.dense_cond(bwd)
        my, Py = fac.dense_rv(obs)
        mx, Px = _f(xr.mean), _f(xr.cov)
        Cxy = Px @ _f(orr.A).T
        wx, wy = orr.w_in, orr.w_out
        s = max(np.max(np.diag(Px) / wx ** 2), 1e-300)
        sy = max(np.max(np.diag(_f(yr.cov)) / wy ** 2), 1e-300)
        e1 = np.max(np.abs(A2 @ Py - Cxy) / np.outer(wx, wy)) / np.sqrt(s * sy)
        e2 = np.max(np.abs(A2 @ Py @ A2.T + Q2 - Px) / np.outer(wx, wx)) / s
        e3 = np.max(np.abs(A2 @ my + b2 - mx) / wx) / max(np.max(np.abs(mx) / wx) + np.sqrt(s), 1e-300)
        dev = float(max(e1, e2, e3)) if np.all(np.isfinite(A2)) else float("inf")
        lim = 1e-7
        x_is_zero = not np.any(Px)
        if not x_is_zero:
            worst = max(worst, dev / lim)
        if not dev <= lim and not x_is_zero:
            fails.append(core.fail("revert_joint_law", f"{tag} singular={singular}: {e1:.2e} {e2:.2e} {e3:.2e}"))
        if not singular:
            # Bayes rule + logpdf + whitened rms at a data point
            data_flat = fac.point(k, salt + 41)
            data_tree = fac.N(data_flat, 0 * o.noise.cholesky_flat, o.noise.tree_flatten).mean
            dr = gauss.M(fac.dense_vec(data_flat))
            post_r = RefRV(bwdr.A @ dr + bwdr.b, bwdr.Q, xr.w, hint=bwdr.hint)
            for name, solver in (("solve_triu", linalg.solve_triu), ("lstsq_svd", linalg.lstsq_svd)):
                post = o.bayes_rule_tree(data_tree, x, solve_triu=solver)
                lp, post2 = o.bayes_rule_and_logpdf_tree(data_tree, x, solve_triu=solver)
                rms, post3 = o.bayes_rule_and_residual_whitened_rms_tree(data_tree, x, solve_triu=solver)
                n_tr += 3
                Plat = _f(yr.cov) / np.outer(yr.w, yr.w)
                ev = np.linalg.eigvalsh((Plat + Plat.T) / 2)
                cond = ev[-1] / max(ev[0], 1e-300)
                for pp in (post, post2, post3):
                    dm, dP = dev_rv(fac, pp, post_r)
                    if cond < 1e7:
                        worst = max(worst, dm / (TAU * max(cond, 1)), dP / (TAU * max(cond, 1)))
                    if not (dm <= TAU * max(cond, 1) and dP <= TAU * max(cond, 1)) and cond < 1e7:
                        fails.append(core.fail("bayes_rule_" + name, f"{tag}: {dm:.2e} {dP:.2e} (cond {cond:.1e})"))
                if cond < 1e6:
                    wantl = float(gauss.logpdf(list(dr), list(yr.mean), yr.cov))
                    if not abs(float(lp) - wantl) <= 1e-9 * cond * (abs(wantl) + 1):
                        fails.append(core.fail("bayes_rule_logpdf", f"{tag} {name}: {float(lp)} vs {wantl}"))
                    r = dr - yr.mean
                    if fac.ssm == "blockdiag":
                        wr = []
                        for j in range(d):
                            idx = [i * d + j for i in range(k)]
                            rj = np.array([r[i] for i in idx], dtype=object)
                            Pj = np.array([[yr.cov[a, b] for b in idx] for a in idx], dtype=object)
                            wr.append(float(mpmath.sqrt(gauss.whitened_sq(rj, Pj) / k)))
                        wr = np.array(wr)
                    else:
                        wr = np.array([float(mpmath.sqrt(gauss.whitened_sq(r, yr.cov) / (k * d)))])
                    gr = np.atleast_1d(np.asarray(rms))
                    if gr.shape != wr.shape or np.any(np.abs(gr - wr) > 1e-9 * cond * np.abs(wr)):
                        fails.append(core.fail("bayes_rule_whitened_rms", f"{tag} {name}: {gr} vs {wr}"))
        if sample is None:
            sample = dict(x=cov_kind, noise=noise_kind, scaling=scal, rows=k, singular_innovation=bool(singular))
    # to_derivative / identity_conditional
    x = fac.rv("well", "nonzero", salt)
    xr = to_ref_rv(fac, x)
    for i in range(n):
        std = jnp.asarray(0.25) if fac.ssm == "isotropic" else jnp.full((d,), 0.25)
        od = x.to_derivative(i, std)
        A, b, Q, _, _ = fac.dense_cond(od)
        E = np.zeros((d, n * d))
        E[:, i * d:(i + 1) * d] = np.eye(d)
        n_tr += 1
        if not (np.array_equal(A, E) and np.all(b == 0) and np.allclose(Q, 0.0625 * np.eye(d), rtol=1e-15, atol=0)):
            fails.append(core.fail("to_derivative", f"i={i}: A={A} Q={Q}"))
    ic = x.identity_conditional()
    A, b, Q, _, _ = fac.dense_cond(ic)
    n_tr += 1
    if not (np.array_equal(A, np.eye(n * d)) and np.all(b == 0) and np.all(Q == 0)):
        fails.append(core.fail("identity_conditional", "not the identity"))
    seen = {}
    for f in fails:
        seen.setdefault(f["kind"], f)
    return core.result(case, list(seen.values()), transitions=n_tr, traces=n_tr, states=n_tr, outcome="ok" if not fails else "|".join(sorted(seen)), dev=worst, sample=sample)


def _run_batched(case):
    """vmap-batched variants: every operation applied to a stacked batch equals the per-member application."""
    import jax
    from probdiffeq.backend import linalg

    fac = Factory(case["ssm"], case["n"], case["d"])
    salt = case["seed"] % 3
    xs = [fac.rv(k, "nonzero", salt + i) for i, k in enumerate(["well", "illcond", "rank1"])]
    cs = [fac.cond("well", s, "nonzero", salt + 20 + i) for i, s in enumerate(["ones", "taylor_small", "arbitrary"])]
    X = jax.tree.map(lambda *a: fac.jnp.stack(a), *xs)
    Cc = jax.tree.map(lambda *a: fac.jnp.stack(a), *cs)
    fails = []
    n_tr = 0
    ops = {
        "marginalise": lambda c, x: c.marginalise(x),
        "revert": lambda c, x: c.revert(x, solve_triu=linalg.solve_triu),
        "merge": lambda c, x: c.merge(c),
        "preconditioner_apply": lambda c, x: c.preconditioner_apply(),
        "apply_flat": lambda c, x: c.apply_flat(x.mean_flat),
        "to_multivariate_normal": lambda c, x: x.to_multivariate_normal(),
        "std": lambda c, x: x.std,
    }
    for name, fn in ops.items():
        batched = jax.vmap(fn)(Cc, X)
        for i in range(3):
            single = fn(cs[i], xs[i])
            n_tr += 1
            for a, b in zip(jax.tree.leaves(batched), jax.tree.leaves(single)):
                a = np.asarray(a)[i]
                b = np.asarray(b)
                if a.shape != b.shape or not np.allclose(a, b, rtol=1e-11, atol=1e-13 * (1 + np.max(np.abs(b)))):
                    fails.append(core.fail("batched_" + name, f"member {i}: max diff {np.max(np.abs(a - b)) if a.shape == b.shape else 'shape'}"))
                    break
    # the library's own batched accessors (mean/std/to_multivariate_normal on stacked normals)
    mm = X.mean
    for i in range(3):
        for a, b in zip(jax.tree.leaves(mm), jax.tree.leaves(xs[i].mean)):
            if not np.array_equal(np.asarray(a)[i], np.asarray(b)):
                fails.append(core.fail("batched_mean_accessor", f"member {i}"))
    seen = {}
    for f in fails:
        seen.setdefault(f["kind"], f)
    return core.result(case, list(seen.values()), transitions=n_tr, traces=n_tr, states=n_tr, outcome="ok" if not fails else "|".join(sorted(seen)), sample=dict(ops=list(ops)))
