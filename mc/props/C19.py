"""C19 - constrained least-squares points are feasible, optimal, exact if affine.

Lattice: D <= 6 (10 thorough) variables x 1..D-1 constraint rows x {affine, affine + eps*quadratic} x covariance
factors {identity, diagonal 1e-3..1e3, dense, rank D-1, rank 1} x tol {1e-4,1e-8,1e-12} x maxiter {1,2,10,50}.
The routine is given a Python while_loop so that iterations and constraint evaluations are counted by the harness.
"""

import itertools

import numpy as np

from mc import core

LEVEL = "model_checking"
ENGINE = "E2 xprod"
TECHNIQUE = "exhaustive lattice enumeration (sizes x row counts x constraint kinds x covariance-factor kinds x tolerances x iteration budgets) on the real Gauss-Newton routine with a counting while_loop; KKT conditions and the exact affine solution (60-digit) as oracle"
LEVEL_TEXT = "Every lattice point is executed; termination reason, reported statistics, feasibility, first-order optimality and (affine case) the exact conditional mean are asserted."
LEVEL_NOTE = "Trusted: mpmath conditional mean for affine constraints. Feasibility is asserted only for feasible problems (J L of full row rank); covariance condition numbers <= 1e8 with tolerance scaled accordingly."
TIMEOUT_S = {"quick": 900, "thorough": 3600}


def _tab(shape, salt):
    n = int(np.prod(shape))
    x = np.sin(1.0 + 1.37 * np.arange(n) + 0.71 * salt) * 43758.5453
    return (2 * (x - np.floor(x)) - 1).reshape(shape)


def _chol(D, kind):
    L = np.tril(_tab((D, D), 5)) + 1.5 * np.eye(D)
    if kind == "identity":
        return np.eye(D)
    if kind == "diagonal":
        return np.diag(np.logspace(-1.5, 1.5, D))
    if kind == "dense":
        return L
    if kind == "rank_D-1":
        L = L.copy()
        L[:, -1] = 0
        return L
    if kind == "rank1":
        out = np.zeros((D, D))
        out[:, 0] = L[:, 0]
        return out
    raise ValueError(kind)


def enumerate_cases(tier, seed):
    Ds = [2, 3, 5, 6] if tier == "quick" else [2, 3, 4, 5, 6, 8, 10]
    cases = []
    for D in Ds:
        for m in range(1, D):
            for ck in ("identity", "diagonal", "dense", "rank_D-1", "rank1"):
                cases.append(dict(id=f"gn/D{D}/rows{m}/{ck}", group=f"D{D}", part="gn", D=D, m=m, cov=ck, seed=seed, weight=10 + D))
    for ssm_q in ((1, 2), (2, 3)):
        cases.append(dict(id=f"map_update/d{ssm_q[0]}/q{ssm_q[1]}", group="map", part="map", d=ssm_q[0], q=ssm_q[1], seed=seed, weight=30))
    return cases


def describe(tier, seed):
    return dict(
        rule="case = (D, rows, covariance kind); inside: {affine, affine+quadratic(eps=0.05, 0.5)} x tol x maxiter x 2 means; non-trivial = nonlinear constraint or singular covariance",
        exhaustive=True,
        alphabets=dict(D=[2, 3, 5, 6] if tier == "quick" else [2, 3, 4, 5, 6, 8, 10], rows="1..D-1", cov=["identity", "diagonal", "dense", "rank D-1", "rank 1"],
                       tol=[1e-4, 1e-8, 1e-12], maxiter=[1, 2, 10, 50], eps=[0.0, 0.05, 0.5]),
        bounds=dict(),
        assumptions=["feasibility asserted only when J L has full row rank at the solution (otherwise the routine must stop on a vanishing increment and report the residual truthfully)"],
    )


def run_cases(cases):
    from mc import jaxenv

    jaxenv.setup()
    for case in cases:
        yield core.guarded(case, _run_gn if case["part"] == "gn" else _run_map)


def _run_gn(case):
    import jax.numpy as jnp
    from probdiffeq import probdiffeq

    from mc.refmodel import gauss

    D, m = case["D"], case["m"]
    Jm = _tab((m, D), 1) + np.eye(m, D)
    bv = _tab((m,), 2)
    Qt = 0.5 * (_tab((m, D, D), 3) + np.transpose(_tab((m, D, D), 3), (0, 2, 1)))
    L = _chol(D, case["cov"])
    fails = []
    n = 0
    worst = 0.0
    sample = None
    reasons = set()
    for eps, tol, maxiter, mi in itertools.product((0.0, 0.05, 0.5), (1e-4, 1e-8, 1e-12), (1, 2, 10, 50), (0, 1)):
        mean = _tab((D,), 7 + mi)
        Jj, bj, Qj = jnp.asarray(Jm), jnp.asarray(bv), jnp.asarray(Qt)
        evals = {"n": 0}

        def constraint(x):
            return Jj @ x + bj + eps * jnp.einsum("kij,i,j->k", Qj, x, x)

        iters = {"n": 0}

        def py_while(cond, body, init):
            s = init
            while bool(cond(s)):
                s = body(s)
                iters["n"] += 1
            return s

        solver = probdiffeq.lstsq_constrained_gauss_newton(maxiter=maxiter, tol=tol, while_loop=py_while)
        x, stats = solver(constraint, jnp.asarray(mean), jnp.asarray(mean), jnp.asarray(L))
        x = np.asarray(x)
        n += 1
        tag = f"eps={eps} tol={tol} maxiter={maxiter} mean{mi}"
        fx = np.asarray(constraint(jnp.asarray(x)))
        Jx = Jm + 2 * eps * np.einsum("kij,j->ki", Qt, x)
        if not np.all(np.isfinite(x)):
            fails.append(core.fail("nonfinite_solution", tag))
            continue
        # reported statistics are truthful
        if int(stats["iters"]) != iters["n"]:
            fails.append(core.fail("reported_iters_wrong", f"{tag}: reported {int(stats['iters'])}, counted {iters['n']}"))
        if not np.allclose(np.asarray(stats["final_constraint"]), fx, rtol=1e-10, atol=1e-13):
            fails.append(core.fail("reported_final_constraint_wrong", f"{tag}: {np.asarray(stats['final_constraint'])} vs {fx}"))
        dx = np.asarray(stats["final_increment"])
        # termination reason
        feas = np.linalg.norm(fx) <= tol * np.sqrt(m)
        budget = iters["n"] == maxiter
        conv = np.linalg.norm(dx) <= tol * np.sqrt(D)
        if not (feas or budget or conv):
            fails.append(core.fail("terminated_without_reason", f"{tag}: |f|={np.linalg.norm(fx):.2e} iters={iters['n']} |dx|={np.linalg.norm(dx):.2e}"))
        if iters["n"] > maxiter:
            fails.append(core.fail("iteration_budget_exceeded", f"{tag}: {iters['n']} > {maxiter}"))
        reasons.add(("feasible" if feas else "") + ("budget" if budget else "") + ("converged" if conv else ""))
        # feasibility for feasible problems within budget
        H = Jx @ L
        full_rank = np.linalg.matrix_rank(H, tol=1e-9) == m
        if full_rank and not budget and not feas:
            fails.append(core.fail("infeasible_result_without_exhausting_budget", f"{tag}: |f|={np.linalg.norm(fx):.2e}"))
        # first-order optimality: x - mean in range(C J(x)^T) up to the size of the last increment
        if full_rank and iters["n"] >= 1:
            Cm = L @ L.T
            B = Cm @ Jx.T
            coef, *_ = np.linalg.lstsq(B, x - mean, rcond=None)
            resid = np.linalg.norm(x - mean - B @ coef)
            allow = 10 * np.linalg.norm(dx) * (1 + np.linalg.cond(L[:, : np.linalg.matrix_rank(L)]) if np.linalg.matrix_rank(L) else 1.0) + 1e-9 * (1 + np.linalg.norm(x - mean))
            worst = max(worst, resid / allow)
            if not resid <= allow:
                fails.append(core.fail("not_first_order_optimal", f"{tag}: distance to range(C J^T) {resid:.2e} > {allow:.2e}"))
        # affine: exact conditional mean after exactly one iteration
        if eps == 0.0 and full_rank:
            Cm = gauss.M(L) @ gauss.M(L).T
            Jmp = gauss.M(Jm)
            S = Jmp @ Cm @ Jmp.T
            want = gauss.M(mean) - Cm @ Jmp.T @ gauss.solve(S, Jmp @ gauss.M(mean) + gauss.M(bv))
            want = np.array([float(v) for v in want])
            condL = np.linalg.cond(H @ H.T)
            dev = np.max(np.abs(x - want)) / (np.max(np.abs(want)) + np.max(np.abs(mean)))
            allowed = 1e-12 * max(condL, 1.0)
            worst = max(worst, dev / allowed)
            if not dev <= allowed:
                fails.append(core.fail("affine_solution_not_exact", f"{tag}: deviation {dev:.2e} (allowed {allowed:.1e})"))
            if iters["n"] > 2 or (iters["n"] != 1 and maxiter >= 2 and tol >= 1e-8):
                fails.append(core.fail("affine_needed_more_than_one_iteration", f"{tag}: {iters['n']} iterations"))
        if sample is None and eps > 0 and maxiter == 10:
            sample = dict(tag=tag, iters=iters["n"], residual_norm=float(np.linalg.norm(fx)), increment_norm=float(np.linalg.norm(dx)))
    seen = {}
    for f in fails:
        seen.setdefault(f["kind"], f)
    return core.result(case, list(seen.values()), transitions=n, traces=n, states=n, outcome="ok" if not fails else "|".join(sorted(seen)), dev=worst, sample=sample,
                       termination_reasons=sorted(reasons), nontrivial=True)


def _run_map(case):
    """Used as linearisation point, the MAP estimate makes one filter update exact for affine constraints."""
    import jax.numpy as jnp
    from probdiffeq import probdiffeq
    from probdiffeq.backend import linalg

    from mc.props import C08
    from mc.refmodel import gauss

    d, q = case["d"], case["q"]
    n = (q + 1) * d
    fails = []
    ntr = 0
    ssm = probdiffeq.state_space_model_dense()
    Jm = _tab((d, 2 * d), 11)
    bv = _tab((d,), 12)
    Jj, bj = jnp.asarray(Jm), jnp.asarray(bv)
    for eps in (0.0, 0.3):
        res = probdiffeq.residual_velocity(lambda u, du, *, t: Jj @ jnp.concatenate([u, du]) + bj + eps * u * du * (1 + t), jacobian=probdiffeq.jacobian_materialize())
        tcs = [jnp.asarray(_tab((d,), 20 + i)) for i in range(q + 1)]
        prior = ssm.prior_wiener_integrated(tcs, is_exact=False, inexact_eps=0.5)
        # two kinds of distributions: the (diagonal-factor) initial one, and one after a prior transition, whose Cholesky factor is a
        # genuine non-symmetric triangular matrix
        rvs = {"initial": prior.init, "propagated": prior.transition(dt=0.25, output_scale=jnp.asarray(1.0)).marginalise(prior.init)}
        for rv_name, rv in rvs.items():
            for tp_name, tp in (("prior", None), ("map", probdiffeq.taylor_point_maximum_a_posteriori())):
                con = ssm.constraint_residual(res, taylor_point=tp)
                cond, _ = con.linearize(rv, con.init_linearization(), damp=0.0, t=0.5)
                zeros = [jnp.zeros((d,))]
                post = cond.bayes_rule_tree(zeros, rv, solve_triu=linalg.solve_triu)
                ntr += 1
                pm = np.asarray(post.mean_flat)
                val = np.asarray(Jj @ jnp.asarray(pm[: 2 * d]) + bj + eps * pm[:d] * pm[d:2 * d] * 1.5)
                fac = C08.Factory("dense", q + 1, d)
                m0, P0 = fac.dense_rv(rv)
                if eps == 0.0:
                    # exact Gaussian conditioning on the affine constraint
                    H = np.zeros((d, n))
                    H[:, : 2 * d] = Jm
                    Hm, Pm = gauss.M(H), gauss.M(P0)
                    S = Hm @ Pm @ Hm.T
                    want = gauss.M(m0) - Pm @ Hm.T @ gauss.solve(S, Hm @ gauss.M(m0) + gauss.M(bv))
                    want = np.array([float(v) for v in want])
                    if not np.allclose(pm, want, rtol=1e-9, atol=1e-11):
                        fails.append(core.fail("affine_update_not_exact", f"taylor_point={tp_name} rv={rv_name}: {pm} vs {want}"))
                    if tp is not None:
                        # the MAP point itself is the conditional mean
                        cf = con.constraint_flat(tree_flatten=rv.tree_flatten)
                        xi = np.asarray(tp(cf, rv, t=0.5))
                        if not np.allclose(xi, want, rtol=1e-9, atol=1e-11):
                            fails.append(core.fail("map_point_not_conditional_mean", f"rv={rv_name}: {xi} vs {want}"))
                elif tp_name == "map":
                    # with the MAP linearisation point the updated mean satisfies the nonlinear constraint (to the routine's tolerance)
                    if not np.max(np.abs(val)) <= 1e-5:
                        fails.append(core.fail("map_update_violates_constraint", f"rv={rv_name}: residual at updated mean {val}"))
    seen = {}
    for f in fails:
        seen.setdefault(f["kind"], f)
    return core.result(case, list(seen.values()), transitions=ntr, traces=ntr, states=ntr, outcome="ok" if not fails else "|".join(sorted(seen)), sample=dict(d=d, q=q))
