"""C07 - the acceptance quantity equals the documented local error estimate.

(previous, proposed) pairs are produced by real solver steps (1-2 steps in, so that `previous` carries a
non-trivial covariance); for the full product estimator x norm x cached/re-linearised x per-unit-step x
derivative index x factorisation x calibration mode x ODE order x linearisation x dt x (atol, rtol) the
returned error_power is compared with norm^(-1/nu), norm recomputed in 60-digit arithmetic from the
previous mean only. Metamorphic: unchanged when the covariance of `previous` is replaced, unchanged under
base scale x c; the cached variant uses exactly proposed.fun_evals, the re-linearised one ignores it.
"""

import itertools

import numpy as np

from mc import alphabets, core

LEVEL = "model_checking"
ENGINE = "E2 xprod"
TECHNIQUE = "exhaustive product enumeration (estimator options x norms x factorisations x calibration modes x ODE orders x linearisations x dt/atol/rtol lattice) on the real estimate_error_norm against the documented formula evaluated exactly, plus metamorphic invariances"
LEVEL_TEXT = "Every option combination on a dt/atol/rtol lattice is executed on states reached by real solver steps and compared with the documented formula; invariances are asserted implementation-against-itself."
LEVEL_NOTE = "Trusted: mpmath formula transcription (local scale = whitened RMS of the residual of the mean-only prediction; std of the residual or of the corrected state; dt^n/n!; max(|u_prev|,|u_new|); RMS norms). Polynomial fields, dyadic dt."
TIMEOUT_S = {"quick": 1200, "thorough": 7200}
DTS = [2.0 ** -16, 2.0 ** -10, 0.125, 1.0]
TOLS = [1e-10, 1e-6, 1e-1]


def enumerate_cases(tier, seed):
    quick = tier == "quick"
    cases = []
    dms = [(2, 1, 2), (1, 2, 3)] if quick else [(2, 1, 2), (1, 2, 3), (3, 1, 1), (2, 2, 4), (1, 1, 5)]
    for (d, m, q), ssm, calib, lin in itertools.product(dms, ["dense", "isotropic", "blockdiag"], ["none", "mle", "dynamic"], ["ts0", "ts1"]):
        fnames = sorted(alphabets.fields(d, m, tier))
        fname = fnames[seed % len(fnames)]
        for est in ("residual", "state0", "state1"):
            if est == "state1" and m == 1:
                continue  # u' is observed exactly (damp=0): its corrected std is exactly zero, the estimate is 0/0-degenerate
            cases.append(dict(id=f"{est}/{ssm}/{calib}/{lin}/d{d}m{m}q{q}/{fname}", group=f"{d}{m}{q}/{ssm}/{calib}", est=est, ssm=ssm, calib=calib, lin=lin, d=d, m=m, q=q,
                              field=fname, init_id=0, tier=tier, weight=40))
    for ssm in ("dense", "isotropic", "blockdiag"):
        for est in ("residual", "state0"):
            cases.append(dict(id=f"pytree/{est}/{ssm}", group=f"pytree/{ssm}", part="pytree", est=est, ssm=ssm, tier=tier, weight=20))
    return cases


def describe(tier, seed):
    return dict(
        rule="case = (estimator, factorisation, calibration, linearisation, d, order, q, field); inside: norm x cached/re-linearised x per-unit-step x "
             "steps-in {1,2} x dt x atol x rtol (full product) + metamorphic variants; non-trivial = all (nonlinear fields)",
        exhaustive=True,
        alphabets=dict(estimators=["error_residual_std", "error_state_std(derivative_idx=0)", "error_state_std(derivative_idx=1)"], norms=["scale_then_rms", "rms_then_scale"],
                       relinearise=[False, True], per_unit_step=[False, True], dt=DTS, atol=TOLS, rtol=TOLS, steps_in=[1, 2]),
        bounds=dict(relative_tolerance=1e-9),
        assumptions=["damp=0 for the base-scale invariance (with damping the estimate legitimately depends on c)"],
    )


def run_cases(cases):
    from mc import jaxenv

    jaxenv.setup()
    for case in cases:
        yield core.guarded(case, _run_pytree if case.get("part") == "pytree" else _run)


_CORE = {}


def _reference(case, C, m_prev, u_new, dt, atol, rtol, norm, per_unit, poison=1.0, base=1.0):
    import mpmath

    from mc.refmodel import gauss

    mpf = gauss.mpf
    d, q = case["d"], case["q"]
    key = (case["id"], tuple(float(x) for x in m_prev), tuple(float(x) for x in u_new), dt, per_unit, poison, base, case["t_eval"])
    if key not in _CORE:
        if len(_CORE) > 200:
            _CORE.clear()
        _CORE[key] = _reference_core(case, C, m_prev, u_new, dt, per_unit, poison, base)
    err, ref, ratio = _CORE[key]
    if norm == "scale_then_rms":
        val = mpmath.sqrt(sum((e / (mpf(atol) + mpf(rtol) * r)) ** 2 for e, r in zip(err, ref)) / d)
    else:
        val = mpmath.sqrt(sum(e ** 2 for e in err) / d) / (mpf(atol) + mpf(rtol) * mpmath.sqrt(sum(r ** 2 for r in ref) / d))
    if val == 0:
        return mpmath.inf, ratio
    return val ** (mpf(-1) / (q + 1)), ratio


def _reference_core(case, C, m_prev, u_new, dt, per_unit, poison=1.0, base=1.0):
    """Documented formula in mpf. m_prev: previous mean (coefficient-major floats); u_new: zeroth coefficient of proposed mean."""
    import mpmath

    from mc import ssmcheck
    from mc.refmodel import gauss

    mpf = gauss.mpf
    d, m, q = case["d"], case["m"], case["q"]
    st = ssmcheck.ref_structure(case["ssm"], case["lin"], False, d)
    field = gauss.PolyField(C, d, m)
    A, Q = gauss.iwp(q, d, mpf(dt), [base] * d)
    mean = gauss.M(m_prev)
    mp_ = A @ mean
    H, b = gauss.linearize_ode(field, mp_, mpf(case["t_eval"]), q, case["lin"], st)
    b = b * mpf(poison)
    z = H @ mp_ + b
    S0 = H @ Q @ H.T
    if st == "blockdiag":
        sig = [mpmath.sqrt(z[k] ** 2 / S0[k, k]) for k in range(d)]
    else:
        s = mpmath.sqrt(gauss.whitened_sq(z, S0) / d)
        sig = [s] * d
    est = case["est"]
    if est == "residual":
        err = [sig[k] * mpmath.sqrt(S0[k, k]) for k in range(d)]
        n = m  # residual_order - 1 = (m + 1) - 1
        idx = 0
    else:
        idx = int(est[-1])
        K = gauss.solve(S0, H @ Q).T
        Pc = Q - K @ S0 @ K.T
        err = [sig[k] * mpmath.sqrt(abs(Pc[idx * d + k, idx * d + k])) for k in range(d)]
        n = idx
    if per_unit:
        n += 1
    err = [e * mpf(dt) ** n / mpmath.factorial(n) for e in err]
    ref = [max(abs(mean[idx * d + k]), abs(mpf(float(u_new[k])))) for k in range(d)]
    mag = gauss._mag(H, mp_, b)
    if st == "blockdiag":
        ratio = max([mpmath.sqrt(mag[k] ** 2 / S0[k, k]) / sig[k] if sig[k] != 0 else mpmath.inf for k in range(d)])
    else:
        ratio = mpmath.sqrt(gauss.whitened_sq(mag, S0) / d) / sig[0] if sig[0] != 0 else mpmath.inf
    return err, ref, ratio


def _run(case):
    import jax
    import jax.numpy as jnp
    from probdiffeq import probdiffeq

    from mc import impl, ssmcheck

    tier = case["tier"]
    d, m, q = case["d"], case["m"], case["q"]
    C = alphabets.fields(d, m, tier)[case["field"]]
    tc = ssmcheck.mean0(C, d, m, q, case["init_id"])
    fails = []
    n_eval = 0
    worst = 0.0
    sample = None
    for base in (1.0, 1e3):
        cfg = dict(ssm=case["ssm"], calib=case["calib"], relin=False, lin=case["lin"], m=m, strategy="filter", init="inexact", inexact_eps=2.0 ** -10, scaled=True)
        ssm = impl.SSM[case["ssm"]]()
        prior = impl.make_prior(cfg, ssm, jnp.asarray(tc), base * jnp.ones(d))
        con = impl.make_constraint(ssm, jnp.asarray(C), m, case["lin"])
        solver = impl.make_solver(cfg, con)
        s0 = solver.init(0.0, prior, damp=0.0)
        s1 = solver.step(s0, dt=0.125, damp=0.0)
        estimators = {}
        for norm, relin, per_unit in itertools.product(("scale_then_rms", "rms_then_scale"), (False, True), (False, True)):
            nf = probdiffeq.error_norm_scale_then_rms() if norm == "scale_then_rms" else probdiffeq.error_norm_rms_then_scale()
            if case["est"] == "residual":
                e = probdiffeq.error_residual_std(constraint=con, error_norm=nf, re_linearize_before_error=relin, error_per_unit_step=per_unit)
            else:
                e = probdiffeq.error_state_std(constraint=con, error_norm=nf, re_linearize_before_error=relin, error_per_unit_step=per_unit, derivative_idx=int(case["est"][-1]))
            estimators[(norm, relin, per_unit)] = (e, jax.jit(lambda pv, pp, h, a, r, e=e: e.estimate_error_norm(e.init_error(), pv, pp, dt=h, atol=a, rtol=r, damp=0.0)[0]))
        step_fn = jax.jit(lambda s, h: solver.step(s, dt=h, damp=0.0))
        for steps_in, prev in ((1, s0), (2, s1)):
            for dt in DTS:
                prop = step_fn(prev, dt)
                m_prev = np.asarray(_flat_mean(prev, case["ssm"]))
                u_new = np.asarray(_flat_mean(prop, case["ssm"]))
                for (norm, relin, per_unit), (e, fn) in estimators.items():
                    for atol, rtol in itertools.product(TOLS, TOLS):
                        got = float(fn(prev, prop, dt, atol, rtol))
                        c2 = dict(case, t_eval=float(prev.t) + dt)
                        idx = 0 if case["est"] == "residual" else int(case["est"][-1])
                        want, ratio = _reference(c2, C, m_prev, u_new[idx * d:(idx + 1) * d], dt, atol, rtol, norm, per_unit, base=base)
                        want, ratio = float(want), float(ratio)
                        # allowed relative deviation: 1e-9, plus 1e-13 x the cancellation ratio of the residual (rounding of z is ~1e-16 x ratio)
                        allowed = 1e-9 + 1e-13 * ratio
                        if allowed > 1e-3:
                            continue  # residual smaller than 1e-10 of its terms: nothing can be asserted in float64
                        n_eval += 1
                        dev = abs(got - want) / abs(want) if np.isfinite(got) and np.isfinite(want) else (0.0 if got == want else float("inf"))
                        worst = max(worst, dev / allowed)
                        if not dev <= allowed:
                            fails.append(core.fail("error_power_value", f"base={base} steps_in={steps_in} dt={dt} atol={atol} rtol={rtol} norm={norm} relin={relin} per_unit={per_unit}: got {got!r} want {want!r}"))
                        if sample is None:
                            sample = dict(dt=dt, atol=atol, rtol=rtol, norm=norm, error_power=got)
                    if len(fails) > 10:
                        break
                    # ---- metamorphic (one tolerance pair)
                    atol, rtol = 1e-6, 1e-1
                    got = float(fn(prev, prop, dt, atol, rtol))
                    if not np.isfinite(got):
                        continue  # residual exactly zero in floating point (error_power = inf): nothing to compare
                    # (a) covariance of `previous` replaced: unchanged
                    for fac in (0.0, 3.0):
                        prev2 = _with_cholesky_scaled(prev, fac)
                        g2 = float(fn(prev2, prop, dt, atol, rtol))
                        n_eval += 1
                        if not abs(g2 - got) <= 1e-12 * abs(got):
                            fails.append(core.fail("depends_on_previous_covariance", f"dt={dt} norm={norm} relin={relin}: {g2!r} vs {got!r} (covariance x {fac})"))
                    # (b) cached uses exactly proposed.fun_evals; re-linearised ignores it
                    prop2 = _with_poisoned_fun_evals(prop, 2.0)
                    g3 = float(fn(prev, prop2, dt, atol, rtol))
                    n_eval += 1
                    if relin:
                        if not abs(g3 - got) <= 1e-12 * abs(got):
                            fails.append(core.fail("relinearised_variant_uses_cache", f"dt={dt} norm={norm}: {g3!r} vs {got!r}"))
                    else:
                        idx = 0 if case["est"] == "residual" else int(case["est"][-1])
                        c2 = dict(case, t_eval=float(prev.t) + dt)
                        w3, r3 = _reference(c2, C, m_prev, u_new[idx * d:(idx + 1) * d], dt, atol, rtol, norm, per_unit, poison=2.0, base=base)
                        w3 = float(w3)
                        if not abs(g3 - w3) <= (1e-9 + 1e-13 * float(r3)) * abs(w3):
                            fails.append(core.fail("cached_variant_ignores_cache", f"dt={dt} norm={norm}: {g3!r} vs {w3!r}"))
                if len(fails) > 10:
                    break
            if len(fails) > 10:
                break
    # (c) base-scale invariance is implied by both bases agreeing with the reference (which is c-invariant at damp=0):
    fails = ssmcheck.dedup(fails)
    return core.result(case, fails, transitions=n_eval, traces=n_eval, states=n_eval, outcome="ok" if not fails else "|".join(sorted(f["kind"] for f in fails)), dev=worst, sample=sample)


def _flat_mean(state, ssm):
    """Coefficient-major flat mean of a solver state."""
    import numpy as np

    mf = np.asarray(state.u.mean_flat)
    if ssm == "dense":
        return mf
    if ssm == "isotropic":
        return mf.reshape(-1)
    return mf.T.reshape(-1)


def _with_cholesky_scaled(state, fac):
    import dataclasses

    u = type(state.u)(state.u.mean_flat, fac * state.u.cholesky_flat, state.u.tree_flatten)
    return dataclasses.replace(state, u=u, solution_full=u)


def _with_poisoned_fun_evals(state, fac):
    import dataclasses

    fx = state.fun_evals
    noise = type(fx.noise)(fac * fx.noise.mean_flat, fx.noise.cholesky_flat, fx.noise.tree_flatten)
    fx2 = type(fx)(fx.A, noise, fx.to_latent, fx.to_observed)
    return dataclasses.replace(state, fun_evals=fx2)


def _run_pytree(case):
    """The estimate for a pytree-structured state equals the estimate for the flattened state (the contraction rate is the
    number of Taylor coefficients, not the number of array leaves)."""
    import jax
    import jax.numpy as jnp
    from probdiffeq import probdiffeq

    from mc import impl

    fails = []
    n = 0
    worst = 0.0

    def build(tree):
        if tree:
            vf = probdiffeq.ode(lambda u, *, t: {"a": -u["a"] * u["b"] + t, "b": 0.5 * u["a"] - u["b"]}, jacobian=probdiffeq.jacobian_materialize())
            u0 = {"a": jnp.asarray([0.5]), "b": jnp.asarray([0.25])}
        else:
            vf = probdiffeq.ode(lambda u, *, t: jnp.stack([-u[0] * u[1] + t, 0.5 * u[0] - u[1]]), jacobian=probdiffeq.jacobian_materialize())
            u0 = jnp.asarray([0.5, 0.25])
        ssm = impl.SSM[case["ssm"]]()
        tc, _ = probdiffeq.jetexpand_ode_unroll(num=3)(vf, [u0], t=0.0)
        prior = ssm.prior_wiener_integrated(tc)
        con = ssm.constraint_ode_ts0(vf)
        solver = probdiffeq.solver_mle(strategy=probdiffeq.strategy_filter(), constraint=con)
        est = probdiffeq.error_residual_std(constraint=con) if case["est"] == "residual" else probdiffeq.error_state_std(constraint=con)
        s0 = solver.init(0.0, prior, damp=0.0)
        s1 = solver.step(s0, dt=0.125, damp=0.0)
        out = []
        for dt in (2.0 ** -6, 0.125, 0.5):
            s2 = solver.step(s1, dt=dt, damp=0.0)
            for atol, rtol in ((1e-6, 1e-3), (1e-2, 1e-2)):
                out.append(float(est.estimate_error_norm(est.init_error(), s1, s2, dt=dt, atol=atol, rtol=rtol, damp=0.0)[0]))
        return out

    a, b = build(True), build(False)
    for i, (x, y) in enumerate(zip(a, b)):
        n += 1
        dev = abs(x - y) / abs(y)
        worst = max(worst, dev / 1e-9)
        if not dev <= 1e-9:
            fails.append(core.fail("pytree_state_changes_error_power", f"evaluation {i}: tree {x!r} vs flat {y!r}"))
    seen = {}
    for f in fails:
        seen.setdefault(f["kind"], f)
    return core.result(case, list(seen.values()), transitions=n, traces=n, states=n, outcome="ok" if not fails else "|".join(sorted(seen)), dev=worst, sample=dict(values=a[:2]))
