"""C04 - output-scale calibration is the documented estimator and is scale-equivariant.

value    fixed grids: reported scale, means and returned covariances for base scales c*(1..) (scalar and
         per-dimension), MLE with / without the 1/sqrt(N) correction, with / without constraint_init, dynamic,
         uncalibrated, against the exact reference that takes c as an input.
equiv    adaptive runs with the real error estimator: base scale x c leaves means, step counts, the accepted
         step sequence and calibrated covariances unchanged, divides the estimated scale by c and multiplies
         uncalibrated standard deviations by c (implementation against itself; exact initial state, damp=0).
"""

import itertools

import numpy as np

from mc import alphabets, core

LEVEL = "model_checking"
ENGINE = "E2 xprod"
TECHNIQUE = "exhaustive product enumeration over the calibration axis (modes x correction x constraint_init x base-scale multipliers 1e-6..1e6, scalar and per-dimension x factorisations x strategies x grids) against the exact estimator formula (60-digit reference), plus metamorphic scale-equivariance on adaptive runs"
LEVEL_TEXT = "Every listed combination is executed; the reported scale and the returned covariances are compared with the documented estimator evaluated exactly; equivariance is asserted implementation-against-itself on adaptive runs."
LEVEL_NOTE = "Trusted: mpmath reference (shared with C02). Equivariance is asserted only for exact initial conditions and damp=0 (otherwise the posterior mean legitimately depends on c; there the value oracle applies)."
TIMEOUT_S = {"quick": 1500, "thorough": 7200}
CS = [1e-6, 1e-3, 1.0, 1e3, 1e6]


def axes(tier):
    quick = tier == "quick"
    return dict(
        ssm=["dense", "isotropic", "blockdiag"],
        mode=[("none", True), ("mle", True), ("mle", False), ("dynamic", True)],
        lin=["ts0", "ts1"],
        init=["exact", "inexact"],
        cinit=[False, True],
        dmq=[(2, 1, 2)] if quick else [(2, 1, 2), (1, 2, 3), (3, 1, 1), (1, 1, 4)],
        scale_kind=["scalar", "vector"],
        steps=[2.0 ** -7, 0.125, 0.5],
    )


def enumerate_cases(tier, seed):
    ax = axes(tier)
    cases = []
    for (d, m, q), init, cinit, (calib, corr), ssm, lin, sk in itertools.product(ax["dmq"], ax["init"], ax["cinit"], ax["mode"], ax["ssm"], ax["lin"], ax["scale_kind"]):
        if sk == "vector" and (ssm == "isotropic" or d == 1):
            continue
        fnames = sorted(alphabets.fields(d, m, tier))
        fname = fnames[seed % len(fnames)]
        tag = f"{ssm}/{calib}{'' if corr else '-nocorr'}/{lin}/d{d}m{m}q{q}/{init}/cinit{int(cinit)}/{sk}/{fname}"
        cases.append(dict(id="value/" + tag, group=f"v/{d}{m}{q}/{init}/{calib}/{int(cinit)}", part="value", ssm=ssm, calib=calib, correction=corr, lin=lin, d=d, m=m, q=q,
                          init=init, cinit=cinit, scale_kind=sk, field=fname, init_id=0, tier=tier, weight=60))
    for ssm, (calib, corr), lin, strat in itertools.product(ax["ssm"], ax["mode"], ax["lin"], ["filter", "fixedpoint"]):
        if not corr:
            continue
        cases.append(dict(id=f"equiv/{strat}/{ssm}/{calib}/{lin}", group=f"e/{ssm}/{calib}/{lin}", part="equiv", ssm=ssm, calib=calib, correction=True, lin=lin, d=2, m=1, q=3,
                          init="exact", cinit=False, field="lv_t", init_id=0, tier=tier, strategy=strat, weight=150))
    return cases


def describe(tier, seed):
    return dict(
        rule="value part: case = configuration, inside every grid (all step sequences of length 2 and three of length 3/4) x every multiplier c x damping; "
             "equiv part: case = configuration, inside tolerances {1e-3,1e-6} x every c; non-trivial = c != 1 or calibrated mode",
        exhaustive=True,
        alphabets=dict(axes(tier), c=CS, vector_pattern=[1.0, 0.25, 4.0]),
        bounds=dict(tolerance=1e-8),
        assumptions=["equivariance asserted for exact initial state and damp=0 only (soundness restriction)"],
    )


def run_cases(cases):
    from mc import jaxenv

    jaxenv.setup()
    for case in cases:
        yield core.guarded(case, _run_value if case["part"] == "value" else _run_equiv)


def _svec(case, c):
    d = case["d"]
    if case["scale_kind"] == "scalar":
        return [c] * d
    return [c * v for v in [1.0, 0.25, 4.0][:d]]


def _run_value(case):
    import jax.numpy as jnp

    from mc import compare, impl, ssmcheck
    from mc.refmodel import gauss

    tier = case["tier"]
    ax = axes(tier)
    d, m, q = case["d"], case["m"], case["q"]
    C = alphabets.fields(d, m, tier)[case["field"]]
    tc = ssmcheck.mean0(C, d, m, q, case["init_id"])
    cfg = dict(ssm=case["ssm"], calib=case["calib"], relin=False, lin=case["lin"], m=m, strategy="filter", init=case["init"], inexact_eps=2.0 ** -10,
               scaled=True, correction=case["correction"])
    if case["cinit"]:
        cfg["constraint_init"] = True
    std0 = impl.init_std(cfg, q, d)
    prog = impl.fixed_grid_program(impl.cfg_key(cfg))
    grids = [g for g in alphabets.grids(ax["steps"], [2]) if compare.admissible(g, q)]
    grids += [[0.0, 0.125, 0.25, 0.375], [0.0, 0.5, 0.625, 0.6328125], [0.0, 0.125, 0.25, 0.375, 0.5]]
    st = "blockdiag" if case["ssm"] == "blockdiag" else ("dense" if (case["lin"] == "ts0" and case["scale_kind"] == "scalar") else case["ssm"])
    field = gauss.PolyField(C, d, m)
    fails, wk = [], {}
    n = n_ref = 0
    sample = None
    for grid in grids:
        for c in CS:
            for damp in (0.0, 2.0 ** -10):
                if case["cinit"] and case["init"] == "exact" and damp == 0.0:
                    continue  # initial innovation covariance exactly singular and the residual exactly zero: 0/0 in the estimator's first datum
                sv = _svec(case, c)
                if case["init"] == "inexact" and 2.0 ** -10 / (min(sv) * min(np.diff(grid)) ** (q + 0.5)) > 1e4:
                    # a-priori conditioning rule: initial uncertainty more than 1e4 x the process noise of the smallest step; a square-root
                    # filter then resolves the noise only to ~1e-16 * 1e6 * ... relative, i.e. rounding alone approaches the tolerance
                    continue
                out = prog(jnp.asarray(C), jnp.asarray(grid), jnp.asarray(tc), jnp.asarray(sv), damp)
                out = {k: np.asarray(v) for k, v in out.items() if k in ("mean", "cov", "output_scale", "num_steps")}
                try:
                    ref = gauss.ekf(field=field, q=q, grid=grid, mean0=tc.reshape(-1), std0=std0, base_scale=sv, lin=case["lin"], structure=st, damp=damp,
                                    calib=case["calib"], correction=case["correction"], constraint_init=case["cinit"])
                except gauss.Degenerate:
                    continue
                n_ref += 1
                amp = compare.amplification(grid, q)
                slack = ssmcheck.scale_slack(ref)
                tag = f"grid={grid} c={c} damp={damp}"
                N = len(grid) - 1
                ssmcheck.compare_marginals(fails, tag, out["mean"], out["cov"], ref.filt, ref, q, d, ssmcheck.local_steps(grid), amp, slack, wk)
                osc = out["output_scale"]
                ssmcheck.compare_scales(fails, tag, osc, ref, list(range(N + 1))[-osc.shape[0]:], amp[-osc.shape[0]:], wk)
                n += N + 1
                if sample is None and c != 1.0:
                    sample = dict(grid=grid, c=c, damp=damp, scale=[float(x) for x in np.atleast_1d(osc[-1])])
            if len(fails) > 10:
                break
        if len(fails) > 10:
            break
    fails = ssmcheck.dedup(fails)
    return core.result(case, fails, transitions=n, traces=n_ref, states=n_ref, outcome="ok" if not fails else "|".join(sorted(f["kind"] for f in fails)),
                       dev=max(wk.values(), default=0.0), sample=sample, dev_by_kind=wk)


def _run_equiv(case):
    import jax
    import jax.numpy as jnp
    from probdiffeq import ivpsolve, probdiffeq

    from mc import impl, ssmcheck

    tier = case["tier"]
    d, m, q = case["d"], case["m"], case["q"]
    C = alphabets.fields(d, m, tier)[case["field"]]
    tc = ssmcheck.mean0(C, d, m, q, case["init_id"])
    cfg = dict(ssm=case["ssm"], calib=case["calib"], relin=False, lin=case["lin"], m=m, strategy=case["strategy"], init="exact", scaled=True)

    def solve(c, tol):
        ssm = impl.SSM[case["ssm"]]()
        prior = impl.make_prior(cfg, ssm, jnp.asarray(tc), c * jnp.ones(d))
        con = impl.make_constraint(ssm, jnp.asarray(C), m, case["lin"])
        solver = impl.make_solver(cfg, con)
        err = probdiffeq.error_residual_std(constraint=con)
        sol = ivpsolve.solve_adaptive_save_at(solver=solver, error=err, clip_dt=False, warn=False)(
            prior, save_at=jnp.asarray([0.0, 0.2, 0.55, 1.0]), atol=tol, rtol=tol, dt0=0.1)
        mean, cov = sol.u.to_multivariate_normal()
        return dict(mean=mean, cov=cov, scale=sol.output_scale, n=sol.num_steps, t=sol.t, std=jax.tree.leaves(sol.u.std))

    run = jax.jit(solve)
    fails = []
    n = 0
    worst = 0.0
    sample = None
    for tol in (1e-3, 1e-6):
        base = {k: np.asarray(v) if k != "std" else [np.asarray(x) for x in v] for k, v in run(1.0, tol).items()}
        for c in CS:
            if c == 1.0:
                continue
            o = {k: np.asarray(v) if k != "std" else [np.asarray(x) for x in v] for k, v in run(c, tol).items()}
            n += 1
            tag = f"tol={tol} c={c}"
            if not np.array_equal(o["n"], base["n"]) or not np.allclose(o["t"], base["t"], rtol=0, atol=1e-12):
                fails.append(core.fail("equiv_step_sequence", f"{tag}: num_steps {o['n']} vs {base['n']}"))
                continue
            dm = float(np.max(np.abs(o["mean"] - base["mean"]) / (np.abs(base["mean"]) + 1e-12 + np.sqrt(np.abs(np.diagonal(base["cov"], axis1=1, axis2=2))))))
            worst = max(worst, dm / 1e-7)
            if not dm <= 1e-7:
                fails.append(core.fail("equiv_mean", f"{tag}: relative change {dm:.2e}"))
            if case["calib"] == "none":
                want_cov = base["cov"] * c ** 2
                want_scale = base["scale"]
            else:
                want_cov = base["cov"]
                want_scale = base["scale"] / c
            sd = np.sqrt(np.abs(np.diagonal(want_cov, axis1=1, axis2=2)))
            dc = float(np.max(np.abs(o["cov"] - want_cov) / (sd[:, :, None] * sd[:, None, :] + 1e-4 * np.max(sd, axis=1)[:, None, None] ** 2 + 1e-300)))
            worst = max(worst, dc / 1e-6)
            if not dc <= 1e-6:
                fails.append(core.fail("equiv_cov", f"{tag}: relative deviation {dc:.2e} from {'c^2 x' if case['calib'] == 'none' else ''} base covariance"))
            lo = 1 if case["calib"] == "dynamic" else 0  # the dynamic solver reports the (unit) prior scale at t0, not an estimate
            ds = float(np.max(np.abs(o["scale"][lo:] - want_scale[lo:]) / np.abs(want_scale[lo:])))
            worst = max(worst, ds / 1e-6)
            if not ds <= 1e-6:
                fails.append(core.fail("equiv_scale", f"{tag}: scale {o['scale'][-1]} want {want_scale[-1]}"))
            if case["calib"] == "none":
                for a, b in zip(o["std"], base["std"]):
                    if not np.allclose(a, c * b, rtol=1e-6, atol=0):
                        fails.append(core.fail("equiv_std", f"{tag}: uncalibrated std not multiplied by c"))
            if sample is None:
                sample = dict(tol=tol, c=c, num_steps=[int(x) for x in o["n"]], scale=[float(x) for x in np.atleast_1d(o["scale"][-1])])
    fails = ssmcheck.dedup(fails)
    return core.result(case, fails, transitions=n, traces=n, states=n, outcome="ok" if not fails else "|".join(sorted(f["kind"] for f in fails)), dev=worst, sample=sample)


def merge_coverage(results):
    wk = {}
    for r in results:
        for k, v in (r.get("dev_by_kind") or {}).items():
            wk[k] = max(wk.get(k, 0.0), v)
    return dict(worst_deviation_as_fraction_of_tolerance_by_observable=wk)
