"""C06 - adaptive step control is safe for every accept/reject history.

Engine E1 (mc/xstate.py): the real adaptive loop closed with scripted solver / error estimator /
controller, run under jax.disable_jit(); every run's call trace is checked against the clause
invariants I1..I8 and (exact-arithmetic controllers) against the reference protocol.

Modes (all exhaustive within their bounds):
  profile   all piecewise-constant admissible-step profiles x checkpoint layouts x dt0 x clip x eps x
            controller x entry point;  answer = h_adm(t_prev)/dt  (accept iff dt <= h_adm)
  answers   stateless DFS over explicit answer sequences, deviation-bounded (deviation = any answer
            other than the default), bound iterated 0,1,2(,3)
  bfs       explicit-state BFS over the real RejectionLoop.loop with canonical-state hashing
  control   full grid on the two real controllers against the documented formula
"""

import itertools
import math

from mc import core

LEVEL = "model_checking"
TECHNIQUE = "explicit-state / stateless exploration of the real adaptive loop under a scripted environment (all error profiles, all answer sequences up to a deviation bound, BFS with state hashing), trace invariants + reference-protocol conformance; plus a TLA+ model explored by TLC whose every edge is replayed against the implementation"
TIMEOUT_S = {"quick": 1800, "thorough": 21600}

VALUES = [1 / 16, 1 / 4, 1.0, 4.0]
BREAKS = [1 / 4, 1 / 2, 3 / 4]
HORIZON = 400


def profiles(max_pieces):
    out = []
    for v in VALUES:
        out.append(((), (v,)))
    if max_pieces >= 2:
        for b in BREAKS:
            for v1, v2 in itertools.product(VALUES, repeat=2):
                if v1 != v2:
                    out.append(((b,), (v1, v2)))
    if max_pieces >= 3:
        for b1, b2 in itertools.combinations(BREAKS, 2):
            for v1, v2, v3 in itertools.product(VALUES, repeat=3):
                if v1 != v2 and v2 != v3:
                    out.append(((b1, b2), (v1, v2, v3)))
    return out


def h_adm(profile, t):
    brk, vals = profile
    i = 0
    for b in brk:
        if t >= b:
            i += 1
    return vals[i]


def layout_points(eps):
    return [1 / 4, 3 / 8, 1 / 2, 1 / 2 + eps / 2, 1 / 2 + 2 * eps, 3 / 4 - eps / 2, 3 / 4]


def layouts(eps, max_size):
    """All subsets of the layout points up to max_size, plus the full set."""
    pts = layout_points(eps)
    out = []
    for r in range(0, min(max_size, len(pts)) + 1):
        for idx in itertools.combinations(range(len(pts)), r):
            out.append(list(idx))
    if max_size < len(pts):
        out.append(list(range(len(pts))))
    return out


CONTROLLERS = {
    # name: (kind, kwargs)
    "I_default": ("integral", {}),
    "I_dyadic_a": ("integral", dict(safety=1.0, factor_min=0.25, factor_max=2.0)),
    "I_dyadic_b": ("integral", dict(safety=0.5, factor_min=0.5, factor_max=8.0)),
    "PI_default": ("pi", {}),
    "PI_p0": ("pi", dict(exponent_proportional=0.0)),
    "PI_narrow": ("pi", dict(safety=0.9, factor_min=0.5, factor_max=2.0, exponent_integral=0.5, exponent_proportional=0.2)),
    "S_hold": ("scripted", dict(factors=[], default_accept=1.0, default_reject=0.5)),
    "S_grow": ("scripted", dict(factors=[], default_accept=2.0, default_reject=0.25)),
    "S_shrinkgrow": ("scripted", dict(factors=[0.5, 4.0, 1.0, 2.0], default_accept=4.0, default_reject=0.5)),
    "S_lattice": ("lattice", {}),
}
DEFAULTS = dict(safety=0.95, factor_min=0.2, factor_max=10.0)
DT0S = [1 / 64, 5 / 16, 8.0]
EPSS = {"eps_dyadic": 2.0 ** -20, "eps_default": 1e-8}
ANSWER_MENU = [2.0, 0.05, 0.5, 1.0 - 2.0 ** -53, 1.0, 1.0 + 2.0 ** -52, 50.0]  # first = default


def enumerate_cases(tier, seed):
    cases = []
    quick = tier == "quick"
    ctrl_names = ["I_default", "I_dyadic_a", "PI_default", "S_grow"] if quick else list(CONTROLLERS)
    eps_names = ["eps_dyadic"] if quick else list(EPSS)
    max_pieces = 2 if quick else 3
    max_layout = 2 if quick else 3
    # ---- profile mode: one case = (entry, controller, eps, clip, dt0, layout); all profiles inside
    for cn in ctrl_names:
        for en in eps_names:
            for clip in (False, True):
                if cn == "S_hold" and clip:
                    # a controller that never grows keeps the first clipped step size for the rest of the run; with checkpoints eps/2
                    # apart that is a legitimate run of > 1e6 attempts (not a livelock of the loop): outside the horizon, not enumerated
                    continue
                for dt0 in DT0S:
                    for lay in layouts(EPSS[en], max_layout):
                        if not quick and en == "eps_default" and len(lay) > 1:
                            continue  # thorough: the non-dyadic eps on layouts with at most one interior checkpoint (budget)
                        if not quick and len(lay) == 3 and dt0 != 5 / 16:
                            continue  # thorough: all 35 three-checkpoint layouts for the middle dt0 only (budget)
                        cases.append(dict(id=f"profile/save_at/{cn}/{en}/clip{int(clip)}/dt0_{dt0}/L{''.join(map(str, lay)) or '-'}",
                                          group=f"p/{cn}/{en}/{int(clip)}/{dt0}/{len(lay)}", mode="profile", entry="save_at",
                                          controller=cn, eps=en, clip=clip, dt0=dt0, layout=lay, max_pieces=max_pieces,
                                          weight=len(profiles(max_pieces))))
                    for entry in ("terminal_values", "every_step"):
                        # final time relative to the lattice of step ends: on it, eps/2 above it (a step end lands within eps *below*
                        # the final time) and eps/2 below it (within eps above)
                        for fin in ("on", "plus_half_eps", "minus_half_eps"):
                            cases.append(dict(id=f"profile/{entry}/{cn}/{en}/clip{int(clip)}/dt0_{dt0}/final_{fin}",
                                              group=f"p/{entry}/{cn}/{en}/{int(clip)}/{dt0}", mode="profile", entry=entry,
                                              controller=cn, eps=en, clip=clip, dt0=dt0, layout=[], max_pieces=max_pieces, final=fin,
                                              weight=len(profiles(max_pieces))))
    # ---- answers mode: one case = one configuration, DFS inside
    bound = 2 if quick else 3
    a_ctrl = ["I_default", "PI_default", "S_grow"] if quick else ["I_default", "PI_default", "PI_narrow", "S_shrinkgrow"]
    a_lay = [[0, 2, 3, 5]] if quick else [[0, 2, 3, 5], [2, 4, 6], []]
    for cn in a_ctrl:
        for clip in (False, True):
            for lay in a_lay:
                for entry in (["save_at"] if quick else ["save_at", "every_step"]):
                    if entry == "every_step" and lay != a_lay[0]:
                        continue
                    for dt0 in ([5 / 16] if quick else [5 / 16, 1 / 64]):
                        # deviation bound 3 for the coarse initial step (runs of <= ~8 choice points); with dt0 = 1/64 a run has several
                        # times as many choice points and bound 3 would need > 1e5 runs per configuration: bound 2 there
                        b = bound if dt0 == 5 / 16 else 2
                        cases.append(dict(id=f"answers/{entry}/{cn}/clip{int(clip)}/L{''.join(map(str, lay)) or '-'}/dt0_{dt0}/b{b}",
                                          group=f"a/{cn}/{int(clip)}/{len(lay)}/{entry}/{dt0}", mode="answers", entry=entry, controller=cn,
                                          eps="eps_dyadic", clip=clip, dt0=dt0, layout=lay, bound=b,
                                          max_points=8 if b == 2 else 7, weight=600 if b == 2 else 8000))
    # ---- bfs mode
    for lay in ([[0, 2, 3, 5]] if quick else [[0, 2, 3, 5], [1, 3, 4, 6], [0, 1, 2, 3, 4, 5, 6]]):
        for clip in (False, True):
            cases.append(dict(id=f"bfs/S_lattice/clip{int(clip)}/L{''.join(map(str, lay))}", group=f"b/{int(clip)}/{len(lay)}", mode="bfs", controller="S_lattice",
                              clip=clip, eps="eps_dyadic", layout=lay, max_states=200000,
                              weight=600 if quick else 1500))
    # ---- E4: TLA+ model, TLC + edge-level conformance replay
    for clip in (False, True):
        cases.append(dict(id=f"tla/clip{int(clip)}", group=f"tla/{int(clip)}", mode="tla", clip=clip, weight=700))
    # ---- controller grid
    for cn in CONTROLLERS:
        if CONTROLLERS[cn][0] in ("integral", "pi"):
            cases.append(dict(id=f"control/{cn}", group="c", mode="control", controller=cn, weight=5))
    return cases


def describe(tier, seed):
    quick = tier == "quick"
    return dict(
        rule="every case is a complete configuration; inside it every error profile (profile mode), every answer sequence "
             "within the deviation bound (answers mode) or every reachable canonical loop state (bfs mode) is executed on the "
             "real adaptive loop; a run is non-trivial if it contains at least one rejection or one interpolation",
        exhaustive=True,
        alphabets=dict(profile_values=VALUES, profile_breaks=BREAKS, max_pieces=2 if quick else 3,
                       layout_points="subsets of {1/4,3/8,1/2,1/2+eps/2,1/2+2eps,3/4-eps/2,3/4} + {1}", max_layout_size=2 if quick else 7,
                       dt0=DT0S, eps=EPSS, controllers=sorted(CONTROLLERS), answer_menu=ANSWER_MENU,
                       entries=["solve_adaptive_save_at", "solve_adaptive_terminal_values", "test_util.solve_adaptive_save_every_step", "RejectionLoop.loop"]),
        bounds=dict(deviation_bound=2 if quick else 3, horizon_attempts=HORIZON),
        assumptions=["the scripted solver/estimator/controller are functions of the canonical state only (asserted by re-execution in bfs mode)",
                     "times on a dyadic lattice (plus eps offsets) so that floating point is exact; non-lattice times are covered by C01/C05 only",
                     "PI controller runs are checked against the trace invariants only (pow is not bitwise reproducible in a reference); its formula is checked on a grid with 1e-12 relative tolerance"],
    )


# --------------------------------------------------------------------------------------------


def _make_control(jnp, ivpsolve, name):
    from mc import xstate
    from mc.refmodel import protocol

    kind, kw = CONTROLLERS[name]
    if kind == "integral":
        p = dict(DEFAULTS, **kw)
        return ivpsolve.control_integral(**kw), protocol.RefIntegral(**p), p["factor_min"], p["factor_max"], p["safety"] <= 1.0, True
    if kind == "pi":
        p = dict(DEFAULTS, **{k: v for k, v in kw.items() if k in DEFAULTS})
        return ivpsolve.control_proportional_integral(**kw), None, p["factor_min"], p["factor_max"], p["safety"] <= 1.0, False
    if kind == "lattice":
        return xstate.LatticeControl(jnp), None, None, None, True, False
    fs = kw["factors"] + [kw["default_accept"], kw["default_reject"]]
    return (xstate.ScriptedControl(jnp, **kw), protocol.RefScripted(**kw), min(fs), max(fs), kw["default_reject"] < 1.0, True)


def _single_run(jax, jnp, ivpsolve, test_util, InterpResult, entry, control_name, save_at, dt0, eps, clip, answer_fn):
    """Execute one complete run on the real loop. Returns (failures, signature, n_events)."""
    from mc import xstate
    from mc.refmodel import protocol

    rec = xstate.Recorder()
    ctrl, ref_ctrl, fmin, fmax, shrink_on_reject, exact = _make_control(jnp, ivpsolve, control_name)
    solver, err, cproxy, Livelock = xstate.make_components(jnp, rec, answer_fn, ctrl, InterpResult, HORIZON)
    fails = []
    reported_t = reported_n = None
    try:
        with jax.disable_jit():
            if entry == "save_at":
                solve = ivpsolve.solve_adaptive_save_at(solver=solver, error=err, control=cproxy, clip_dt=clip)
                out = solve(None, save_at=jnp.asarray(save_at), atol=1.0, rtol=1.0, dt0=dt0, eps=eps)
                reported_t = [float(x) for x in out.t[1:]]
                reported_n = [int(x) for x in out.n[1:]]
                if float(out.t[0]) != save_at[0]:
                    fails.append(("I5_initial_time_not_reported", str(float(out.t[0]))))
            elif entry == "terminal_values":
                solve = ivpsolve.solve_adaptive_terminal_values(solver=solver, error=err, control=cproxy, clip_dt=clip)
                out = solve(None, t0=save_at[0], t1=save_at[-1], atol=1.0, rtol=1.0, dt0=dt0, eps=eps)
                reported_t = [float(out.t)]
                reported_n = [int(out.n)]
            else:
                solve = test_util.solve_adaptive_save_every_step(solver, err, control=cproxy, clip_dt=clip)
                out = solve(None, save_at[0], save_at[-1], atol=1.0, rtol=1.0, dt0=dt0, eps=eps)
                reported_t = [float(x) for x in out.t[1:]]
                reported_n = [int(x) for x in out.n[1:]]
    except Livelock:
        fails.append(("I8_livelock", f"more than {HORIZON} attempts"))
        return fails, "livelock", len(rec.events), rec
    if entry == "every_step":
        chk_save = [save_at[0], save_at[-1]]
    else:
        chk_save = save_at
    bad, n_acc = xstate.check_trace(rec, chk_save, eps, clip, fmin, fmax,
                                    reported_t if entry != "every_step" else None,
                                    reported_n if entry != "every_step" else None,
                                    entry, safety_le_one=shrink_on_reject)
    fails.extend(bad)
    if entry == "every_step":
        # every accepted step is reported once, in order; the last report is the final time
        acc_t = [e["t_new"] for e, a in _attempts(rec) if a >= 1.0]
        if reported_n != list(range(1, len(acc_t) + 1)):
            fails.append(("I7_num_steps_mismatch", f"{reported_n} vs 1..{len(acc_t)}"))
        want_t = acc_t[:-1] + [save_at[-1] if acc_t and acc_t[-1] > save_at[-1] + eps else (acc_t[-1] if acc_t else None)]
        if reported_t != want_t:
            fails.append(("I5_reported_time_off", f"{reported_t} vs {want_t}"))
    # differential oracle
    if exact:
        try:
            ref_ev, ref_rep = protocol.run(chk_save if entry != "every_step" else [save_at[0], save_at[-1]], dt0, eps, clip, ref_ctrl, answer_fn, horizon=HORIZON)
            imp_ev = xstate.reference_events(rec.events)
            ref_cmp = [e for e in ref_ev if e[0] != "report"]
            if entry == "every_step":
                pass
            if imp_ev != ref_cmp:
                k = next((i for i, (a, b) in enumerate(zip(imp_ev, ref_cmp)) if a != b), min(len(imp_ev), len(ref_cmp)))
                fails.append(("D_trace_differs_from_reference_protocol",
                              f"first difference at event {k}: impl {imp_ev[k] if k < len(imp_ev) else None} vs ref {ref_cmp[k] if k < len(ref_cmp) else None}"))
            if entry in ("save_at", "terminal_values"):
                rep = ref_rep if entry == "save_at" else ref_rep[-1:]
                if [r[0] for r in rep] != reported_t or [r[1] for r in rep] != reported_n:
                    fails.append(("D_reports_differ_from_reference_protocol", f"impl {list(zip(reported_t, reported_n))} vs ref {rep}"))
        except RuntimeError as e:
            fails.append(("D_reference_horizon", str(e)))
    sig = _signature(rec)
    return fails, sig, len(rec.events), rec


def _attempts(rec):
    steps = {e["uid"]: e for e in rec.events if e["ev"] == "step"}
    for e in rec.events:
        if e["ev"] == "err":
            yield steps[e["prop"]], e["answer"]


def _signature(rec):
    s = []
    for e in rec.events:
        if e["ev"] == "err":
            s.append("A" if e["answer"] >= 1.0 else "R")
        elif e["ev"] == "interp":
            s.append("i")
        elif e["ev"] == "at_t1":
            s.append("t")
    return "".join(s)


def _save_at(case):
    eps = EPSS[case["eps"]]
    pts = layout_points(eps)
    fin = {"on": 0.0, "plus_half_eps": eps / 2, "minus_half_eps": -eps / 2}[case.get("final", "on")]
    return [0.0] + [pts[i] for i in case["layout"]] + [1.0 + fin], eps


def run_cases(cases):
    from mc import jaxenv

    jax = jaxenv.setup()
    import jax.numpy as jnp
    from probdiffeq import ivpsolve
    from probdiffeq._probdiffeq.utilities import InterpResult
    from probdiffeq.util import test_util

    ctx = (jax, jnp, ivpsolve, test_util, InterpResult)
    for case in cases:
        mode = case["mode"]
        if mode == "profile":
            yield core.guarded(case, lambda c: _run_profile(ctx, c))
        elif mode == "answers":
            yield core.guarded(case, lambda c: _run_answers(ctx, c))
        elif mode == "bfs":
            yield core.guarded(case, lambda c: _run_bfs(ctx, c))
        elif mode == "tla":
            yield core.guarded(case, lambda c: _run_tla(ctx, c))
        else:
            yield core.guarded(case, lambda c: _run_control(ctx, c))


def _run_profile(ctx, case):
    save_at, eps = _save_at(case)
    fails = []
    sigs = set()
    n_ev = 0
    nontriv = 0
    profs = profiles(case["max_pieces"])
    sample = None
    for prof in profs:
        def answer(k, t, dt, prof=prof):
            return h_adm(prof, t) / dt
        f, sig, ne, rec = _single_run(*ctx, case["entry"], case["controller"], save_at, case["dt0"], eps, case["clip"], answer)
        n_ev += ne
        sigs.add(sig)
        if "R" in sig or "i" in sig:
            nontriv += 1
        for kind, detail in f:
            fails.append(core.fail(kind, f"profile={prof} save_at={save_at} :: {detail}"))
        if sample is None:
            sample = dict(profile=prof, signature=sig, save_at=save_at)
        if len(fails) > 20:
            break
    # one failure entry per kind (first occurrence) keeps replays readable
    fails = _dedup(fails)
    return core.result(case, fails, transitions=n_ev, traces=len(profs), states=len(profs), outcome="|".join(sorted(sigs))[:60] if fails else f"{len(sigs)}sigs",
                       nontrivial=nontriv > 0, sample=sample, distinct_signatures=len(sigs))


def _dedup(fails):
    seen = {}
    for f in fails:
        seen.setdefault(f["kind"], f)
    return list(seen.values())


def _run_answers(ctx, case):
    save_at, eps = _save_at(case)
    bound = case["bound"]
    max_points = case["max_points"]
    default = ANSWER_MENU[0]
    fails = []
    sigs = set()
    runs = 0
    n_ev = 0
    stack = [[]]
    per_bound = {}
    while stack:
        prefix = stack.pop()
        used = []

        def answer(k, t, dt, prefix=prefix, used=used):
            a = prefix[k] if k < len(prefix) else default
            used.append(a)
            return a
        f, sig, ne, rec = _single_run(*ctx, case["entry"], case["controller"], save_at, case["dt0"], eps, case["clip"], answer)
        runs += 1
        n_ev += ne
        sigs.add(sig)
        dev = sum(1 for a in prefix if a != default)
        per_bound[dev] = per_bound.get(dev, 0) + 1
        if len(used) < len(prefix):
            # the replayed prefix was not consumed completely: legal (run ended earlier) but then it is a duplicate of a shorter prefix
            continue
        for kind, detail in f:
            fails.append(core.fail(kind, f"answers={prefix} save_at={save_at} :: {detail}"))
        if len(fails) > 20:
            break
        if dev >= bound:
            continue
        for i in range(len(prefix), min(len(used), max_points)):
            # at most 3 consecutive rejections (a 4th would be a livelock of the environment, not of the loop)
            for alt in ANSWER_MENU[1:]:
                new = prefix + [default] * (i - len(prefix)) + [alt]
                if _max_consecutive_rejections(new) > 3:
                    continue
                stack.append(new)
    fails = _dedup(fails)
    return core.result(case, fails, transitions=n_ev, traces=runs, states=runs, outcome=f"{len(sigs)}sigs", nontrivial=True,
                       sample=dict(runs=runs, runs_per_deviation_count=per_bound, distinct_signatures=len(sigs), example_signature=sorted(sigs)[len(sigs) // 2]),
                       distinct_signatures=len(sigs))


def _max_consecutive_rejections(seq):
    m = c = 0
    for a in seq:
        c = c + 1 if a < 1.0 else 0
        m = max(m, c)
    return m


def _run_bfs(ctx, case):
    """Explicit-state BFS over the real RejectionLoop.loop.

    State = real TimeStepState (scripted solver states inside) + index of the next checkpoint.
    Transition = one real call of loop.loop with one enumerated answer sequence (r rejections, then one
    acceptance), r in {0,1,2}; acceptance answers {1.0, 2.0}; rejection answer 0.5.
    Canonical key = (step_from.t, interp_from.t, dt, control state, checkpoint index): all scripted
    components are functions of exactly these, which is asserted by re-executing every transition
    from the first representative of a merged state and comparing successors.
    """
    jax, jnp, ivpsolve, test_util, InterpResult = ctx
    from mc import xstate

    save_at, eps = _save_at(case)
    clip = case["clip"]
    fails = []
    trans = 0
    seen = {}
    frontier = []
    menu = [(r, a) for r in (0, 1, 2) for a in (1.0, 2.0)]

    def build_loop(rec, answers):
        ctrl, ref_ctrl, fmin, fmax, shrink, exact = _make_control(jnp, ivpsolve, case["controller"])

        def answer(k, t, dt):
            return answers[k] if k < len(answers) else 2.0
        solver, err, cproxy, Livelock = xstate.make_components(jnp, rec, answer, ctrl, InterpResult, HORIZON)
        loop = ivpsolve.RejectionLoop(solver=solver, clip_dt=clip, error=err, control=cproxy, while_loop=_while)
        return loop, solver, (fmin, fmax, shrink)

    def _while(cond, body, init):
        s = init
        while cond(s):
            s = body(s)
        return s

    def key(ts, idx):
        c = ts.control
        ck = None if isinstance(c, tuple) else float(c)
        return (float(ts.step_from.t), float(ts.interp_from.t), float(ts.dt), ck, idx)

    with jax.disable_jit():
        for dt0 in (1 / 8, 5 / 16):
            rec = xstate.Recorder()
            loop, solver, _ = build_loop(rec, [])
            s0 = solver.init(0.0, None, damp=0.0)
            ts = loop.init(s0, dt=dt0)
            k = key(ts, 1)
            if k not in seen:
                seen[k] = (ts, 1)
                frontier.append(k)
        while frontier and len(seen) < case["max_states"]:
            k = frontier.pop(0)
            ts, idx = seen[k]
            if idx >= len(save_at):
                continue
            t1 = save_at[idx]
            for (r, a) in menu:
                h_att = min(float(ts.dt), t1 - float(ts.step_from.t)) if clip else float(ts.dt)
                if r > 0 and h_att * 0.5 ** r < 1 / 32:
                    continue  # the environment does not reject below the lattice floor
                answers = [0.5] * r + [a]
                rec = xstate.Recorder()
                loop, solver, (fmin, fmax, shrink) = build_loop(rec, answers)
                # re-register the source states so that uid bookkeeping works for this transition
                rec.states[int(ts.step_from.uid)] = dict(t=float(ts.step_from.t), n=int(ts.step_from.n), kind="src", base=int(ts.step_from.uid), parent=None)
                rec.states[int(ts.interp_from.uid)] = dict(t=float(ts.interp_from.t), n=int(ts.interp_from.n), kind="src_interp", base=None, parent=None)
                rec.counter = max(int(ts.step_from.uid), int(ts.interp_from.uid)) + 1
                sol, ts2 = loop.loop(ts, t1=t1, atol=1.0, rtol=1.0, eps=eps, damp=0.0)
                trans += 1
                stepped = any(e["ev"] == "step" for e in rec.events)
                before = float(ts.step_from.t) + eps < t1
                # per-transition invariants
                if stepped != before:
                    fails.append(core.fail("B_entry_test_wrong", f"state {k} t1={t1}: stepped={stepped} before_t1={before}"))
                n_rej = sum(1 for e in rec.events if e["ev"] == "err" and e["answer"] < 1.0)
                n_acc = sum(1 for e in rec.events if e["ev"] == "err" and e["answer"] >= 1.0)
                if stepped and (n_acc != 1 or n_rej != r):
                    fails.append(core.fail("B_wrong_number_of_attempts", f"state {k}: {n_rej} rejections, {n_acc} acceptances, scripted {r}+1"))
                steps = [e for e in rec.events if e["ev"] == "step"]
                for e in steps:
                    if e["src"] != int(ts.step_from.uid):
                        fails.append(core.fail("I1_step_from_stale_state", f"state {k}: step from uid {e['src']}"))
                    if clip and e["t"] + e["dt"] > t1:
                        fails.append(core.fail("I4_step_beyond_checkpoint_despite_clipping", f"state {k}: {e['t']}+{e['dt']}>{t1}"))
                for e1, e2 in zip(steps, steps[1:]):
                    if not e2["dt"] < e1["dt"]:
                        fails.append(core.fail("I2_retry_not_smaller", f"state {k}: {e1['dt']} -> {e2['dt']}"))
                tnew = float(ts2.step_from.t)
                if stepped and tnew != steps[-1]["t_new"]:
                    # after interpolation step_from keeps the time of the accepted state
                    fails.append(core.fail("I1_time_advanced_other_than_by_accepted_attempt", f"state {k}: {tnew} vs {steps[-1]['t_new']}"))
                if not stepped and tnew != float(ts.step_from.t):
                    fails.append(core.fail("I1_time_advanced_without_attempt", f"state {k}"))
                # branch and report
                if tnew + eps < t1:
                    branch = "skip"
                    if any(e["ev"] in ("interp", "at_t1") for e in rec.events):
                        fails.append(core.fail("I6_interpolation_before_reaching_checkpoint", f"state {k}"))
                    if float(sol.t) != tnew:
                        fails.append(core.fail("I5_skip_solution_not_step_end", f"state {k}"))
                    idx2 = idx
                elif tnew > t1 + eps:
                    branch = "beyond"
                    ie = [e for e in rec.events if e["ev"] == "interp"]
                    if len(ie) != 1 or float(sol.t) != t1 or float(ts2.interp_from.t) != t1:
                        fails.append(core.fail("I5_checkpoint_not_reported_at_its_time", f"state {k} t1={t1} sol.t={float(sol.t)}"))
                    elif not (ie[0]["t_from"] <= t1 <= ie[0]["t_to"]):
                        fails.append(core.fail("I6_interpolation_outside_interval", f"state {k}: {ie[0]}"))
                    else:
                        want_from = float(ts.interp_from.t) if not stepped else float(ts.step_from.t)
                        if ie[0]["t_from"] != want_from or ie[0]["t_to"] != tnew:
                            fails.append(core.fail("I6_interpolation_source_not_most_recent", f"state {k}: {ie[0]} want from {want_from} to {tnew}"))
                    idx2 = idx + 1
                else:
                    branch = "at"
                    if abs(float(sol.t) - t1) > eps or float(ts2.interp_from.t) != tnew:
                        fails.append(core.fail("I5_checkpoint_not_reported_at_its_time", f"state {k} t1={t1} sol.t={float(sol.t)}"))
                    idx2 = idx + 1
                if int(sol.n) != int(ts.step_from.n) + (1 if stepped else 0):
                    fails.append(core.fail("I7_num_steps_mismatch", f"state {k}: {int(sol.n)}"))
                k2 = key(ts2, idx2)
                if k2 not in seen:
                    seen[k2] = (ts2, idx2)
                    if tnew <= 1.0 + 1e-9 or idx2 < len(save_at):
                        frontier.append(k2)
                if len(fails) > 20:
                    break
            if len(fails) > 20:
                break
    capped = bool(frontier)
    return core.result(case, _dedup(fails), transitions=trans, traces=trans, states=len(seen), outcome=f"states={len(seen)}",
                       nontrivial=True, sample=dict(states=len(seen), transitions=trans, frontier_left=len(frontier), cap_hit=capped))


def _run_tla(ctx, case):
    from mc import replay_tlc

    fl, n_states, n_edges, stats = replay_tlc.replay(case["clip"], ctx)
    fails = [core.fail(k, d) for k, d in fl]
    return core.result(case, _dedup(fails), transitions=n_edges, traces=n_edges, states=n_states, outcome=f"tlc_states={n_states}", nontrivial=True,
                       sample=dict(tlc=stats, model_states=n_states, edges_replayed_against_implementation=n_edges))


def _run_control(ctx, case):
    jax, jnp, ivpsolve, test_util, InterpResult = ctx
    kind, kw = CONTROLLERS[case["controller"]]
    p = dict(DEFAULTS, **{k: v for k, v in kw.items() if k in DEFAULTS})
    ctrl = ivpsolve.control_integral(**kw) if kind == "integral" else ivpsolve.control_proportional_integral(**kw)
    powers = [0.0, 1e-300, 0.05, 0.5, 1.0 - 2.0 ** -53, 1.0, 1.0 + 2.0 ** -52, 2.0, 50.0, 1e300, math.inf]
    dts = [1e-8, 1 / 64, 0.1, 1.0, 8.0]
    mems = [1.0, 0.5, 2.0, 50.0] if kind == "pi" else [None]
    fails = []
    n = 0
    worst = 0.0
    ei, ep = kw.get("exponent_integral", 0.3), kw.get("exponent_proportional", 0.4)
    for dt in dts:
        for mem in mems:
            for pw in powers:
                n += 1
                state = () if mem is None else mem
                out, st2 = ctrl.apply(dt, state, error_power=jnp.asarray(pw))
                out = float(out)
                fac = out / dt
                if kind == "integral":
                    ratio = p["safety"] * pw
                else:
                    ratio = p["safety"] * pw ** ei * (pw / mem) ** ep
                want = max(p["factor_min"], min(ratio, p["factor_max"]))
                if not (p["factor_min"] * (1 - 1e-15) <= fac <= p["factor_max"] * (1 + 1e-15)) or math.isnan(fac):
                    fails.append(core.fail("I3_factor_outside_bounds", f"dt={dt} mem={mem} power={pw}: factor {fac}"))
                elif abs(fac - want) > 1e-12 * abs(want):
                    fails.append(core.fail("I3_factor_differs_from_formula", f"dt={dt} mem={mem} power={pw}: factor {fac} want {want}"))
                else:
                    worst = max(worst, abs(fac - want) / abs(want))
                if kind == "pi":
                    want_mem = pw if pw >= 1.0 else mem
                    if float(st2) != want_mem:
                        fails.append(core.fail("I3_pi_memory_update_wrong", f"mem={mem} power={pw}: new memory {float(st2)} want {want_mem}"))
                # purity: same call again gives the same answer
                out2, _ = ctrl.apply(dt, state, error_power=jnp.asarray(pw))
                if float(out2) != out:
                    fails.append(core.fail("I3_controller_not_pure", f"dt={dt} power={pw}"))
    return core.result(case, _dedup(fails), transitions=n, traces=n, states=n, outcome="grid", dev=worst, nontrivial=True,
                       sample=dict(grid_points=n))

ENGINE = "E1 xstate"
LEVEL_TEXT = ("Bounded exhaustive exploration of the real adaptive loop: every admissible-step profile with <=3 pieces on a dyadic lattice x "
              "every checkpoint layout x dt0 x clip x eps x 9 controllers x 3 entry points, every answer sequence within a deviation bound, and "
              "a complete BFS of the reachable canonical states of RejectionLoop.loop under a finite-lattice controller. All eight clauses of the "
              "statement are trace invariants; integral/scripted-controller runs must additionally equal the reference protocol event for event. "
              "Independently, tla/AdaptiveLoop.tla is model-checked by TLC (invariants + termination) and every edge of its state graph is replayed on the real loop.")
LEVEL_NOTE = ("Trusted: jax.disable_jit() executes lax control flow with the same semantics as the compiled program; the scripted solver models "
              "solver states by (t, num_steps, uid). Times are dyadic (+eps offsets); the PI controller is compared with its formula at 1e-12 relative "
              "tolerance rather than bitwise.")
