"""C10 - Taylor-coefficient initialisation returns the exact solution derivatives.

Programs are inputs: all polynomial vector fields with 1-2 monomials of degree <= 3 in (u, t) (order 1) resp.
(u, u', t) (order 2) for d = 1, a catalogue of coupled fields for d in {2, 3}; initial times {0, 7/10};
k = 0..10 requested coefficients; five routines; flat and pytree states. Oracle: exact rational power-series
recursion (mc/refmodel/series.py).
"""

import itertools

import numpy as np

from mc import alphabets, core

LEVEL = "model_checking"
ENGINE = "E2 xprod over programs"
TECHNIQUE = "exhaustive enumeration of polynomial vector fields (all 1-2-monomial fields of degree <= 3, catalogue for d > 1) x requested orders x initial times x routines x state structures on the real jetexpand_* routines against an exact rational power-series recursion"
LEVEL_TEXT = "Every field of the enumerated family is expanded by every routine for every requested number of coefficients and compared with exact rational derivatives of the solution."
LEVEL_NOTE = "Trusted: Fraction power-series recursion (series.py). Relative tolerance 1e-9 per coefficient (relative to the largest coefficient magnitude up to that order)."
TIMEOUT_S = {"quick": 1500, "thorough": 7200}
T0S = [0.0, 0.7]
ROUTINES = ["padded_scan", "unroll", "via_jvp", "doubling_unroll", "residual"]


def _field_sets(tier):
    quick = tier == "quick"
    sets = {}
    f11 = alphabets.monomial_fields_1d(1, max_terms=2)
    f12 = alphabets.monomial_fields_1d(2, max_terms=1 if quick else 2)
    if quick:
        keys = sorted(f11)
        f11 = {k: f11[k] for k in keys[::3]}
    sets[(1, 1)] = dict(f11, **alphabets.fields(1, 1, "thorough"))
    sets[(1, 2)] = dict(f12, **alphabets.fields(1, 2, "thorough"))
    sets[(2, 1)] = alphabets.fields(2, 1, "thorough")
    sets[(3, 1)] = alphabets.fields(3, 1, "thorough")
    sets[(2, 2)] = alphabets.fields(2, 2, "thorough")
    return sets


def enumerate_cases(tier, seed):
    quick = tier == "quick"
    nums = [0, 1, 2, 3, 5, 7] if quick else list(range(11))
    cases = []
    for (d, m), fs in _field_sets(tier).items():
        for routine in ROUTINES:
            if routine == "doubling_unroll" and m != 1:
                continue
            for num in (nums if routine != "doubling_unroll" else [1, 2, 3]):
                if routine == "residual" and (num > 6 or (d, m) not in ((1, 1), (2, 1), (1, 2))):
                    continue
                for tdep in (False, True):
                    nf = sum(1 for c in fs.values() if _tdep(c) == tdep)
                    if nf == 0:
                        continue
                    cases.append(dict(id=f"{routine}/d{d}m{m}/num{num}/{'timedep' if tdep else 'autonomous'}", group=f"{routine}/d{d}m{m}", routine=routine, d=d, m=m, num=num,
                                      tdep=tdep, tier=tier, part="flat", weight=nf * (2 + num)))
    for routine in ("padded_scan", "unroll", "via_jvp", "doubling_unroll"):
        for kind in ("dict", "namedtuple", "nested", "rank2", "rank0"):
            for tdep in (False, True):
                cases.append(dict(id=f"pytree/{routine}/{kind}/{'timedep' if tdep else 'autonomous'}", group=f"pytree/{routine}", routine=routine, kind=kind, tdep=tdep,
                                  tier=tier, part="pytree", num=3, weight=40))
    return cases


def _tdep(C):
    """Does the field depend on t (last variable of z)?"""
    C = np.asarray(C)
    tpos = C.shape[1] - 1
    return bool(np.any(C[:, tpos, :, :] != 0) or np.any(C[:, :, tpos, :] != 0) or np.any(C[:, :, :, tpos] != 0))


def describe(tier, seed):
    sets = _field_sets(tier)
    return dict(
        rule="case = (routine, d, ODE order, requested number of coefficients); inside: every field of the family x every initial time x every initial value; "
             "non-trivial = num >= 2 (first coefficient is a direct evaluation)",
        exhaustive=True,
        alphabets=dict(routines=ROUTINES, fields={f"d{d}m{m}": len(v) for (d, m), v in sets.items()}, t0=T0S, pytrees=["dict", "namedtuple", "nested", "rank2", "rank0"]),
        bounds=dict(max_num=10, tolerance=1e-9),
        assumptions=["doubling_unroll is first-order only (documented)", "jetexpand_residual is driven with the residual u^(m) - f lifted by num-1 orders, as in the repository's own test"],
    )


def run_cases(cases):
    from mc import jaxenv

    jaxenv.setup()
    for case in cases:
        yield core.guarded(case, _run_flat if case["part"] == "flat" else _run_pytree)


def _routine(name, num):
    from probdiffeq import probdiffeq

    if name == "padded_scan":
        return probdiffeq.jetexpand_ode_padded_scan(num=num)
    if name == "unroll":
        return probdiffeq.jetexpand_ode_unroll(num=num)
    if name == "via_jvp":
        return probdiffeq.jetexpand_ode_via_jvp(num=num)
    if name == "doubling_unroll":
        return probdiffeq.jetexpand_ode_doubling_unroll(num_doublings=num)
    raise ValueError(name)


def _exact(C, d, m, inits, t0, K):
    from fractions import Fraction

    from mc.refmodel import series

    terms = series.terms_from_tensor(C)
    ders = series.ode_taylor(terms, d, m, [[Fraction(float(v)) for v in row] for row in inits], Fraction(float(t0)), K)
    return [[float(v) for v in row] for row in ders]


def _compare(fails, tag, got, want, worst):
    """got/want: lists over derivative order of length-d vectors."""
    if len(got) != len(want):
        fails.append(core.fail("number_of_coefficients", f"{tag}: {len(got)} vs {len(want)}"))
        return worst
    run = 0.0
    for k, (g, w) in enumerate(zip(got, want)):
        g, w = np.asarray(g, dtype=float).reshape(-1), np.asarray(w, dtype=float)
        run = max(run, float(np.max(np.abs(w))), 1e-300)
        if g.shape != w.shape or not np.all(np.isfinite(g)):
            fails.append(core.fail("coefficient_shape_or_nonfinite", f"{tag} order {k}"))
            continue
        dev = float(np.max(np.abs(g - w))) / run
        worst = max(worst, dev / 1e-9)
        if not dev <= 1e-9:
            fails.append(core.fail("coefficient_value", f"{tag} order {k}: got {g} want {w}"))
            break
    return worst


def _run_flat(case):
    import jax
    import jax.numpy as jnp
    from probdiffeq import probdiffeq

    from mc import impl

    d, m, num, routine, tier = case["d"], case["m"], case["num"], case["routine"], case["tier"]
    fs = {k: v for k, v in _field_sets(tier)[(d, m)].items() if _tdep(v) == case["tdep"]}
    fails = []
    worst = 0.0
    n = 0
    sample = None
    if routine == "residual":
        def run(C, inits, t0):
            jac = probdiffeq.jacobian_materialize()
            if m == 1:
                res = probdiffeq.residual_velocity(lambda u, du, *, t: du - impl.poly_eval(C, [u], t), jacobian=jac)
            else:
                res = probdiffeq.residual_acceleration(lambda u, du, ddu, *, t: ddu - impl.poly_eval(C, [u, du], t), jacobian=jac)
            if num >= 1:
                res = res.jet_lift(lift_by=num - 1) if num > 1 else res
            alg = probdiffeq.jetexpand_residual(num=num)
            out, info = alg(res, [inits[i] for i in range(m)], t=t0)
            return out
    else:
        alg = _routine(routine, num)

        def run(C, inits, t0):
            ode = impl.make_ode(C, m)
            out, _ = alg(ode, [inits[i] for i in range(m)], t=t0)
            return out
    prog = jax.jit(run)
    n_out = {"doubling_unroll": 2 ** (num + 1) - 1}.get(routine, m + num)  # doubling: 1 -> 3 -> 7 -> 15 coefficients
    for fname in sorted(fs):
        C = fs[fname]
        for t0 in T0S:
            for inits in alphabets.INITS[(d, m)]:
                got = prog(jnp.asarray(C), jnp.asarray(inits), t0)
                got = [np.asarray(g) for g in got]
                K = n_out - m if routine == "doubling_unroll" else num
                want = _exact(C, d, m, inits, t0, max(K, 0))[: len(got)] if routine == "doubling_unroll" else _exact(C, d, m, inits, t0, num)
                if routine == "doubling_unroll" and len(got) != n_out:
                    fails.append(core.fail("number_of_coefficients", f"{fname}: {len(got)} vs {n_out}"))
                tag = f"field={fname} t0={t0} u0={inits}"
                worst = _compare(fails, tag, got, want, worst)
                n += 1
                if sample is None:
                    sample = dict(field=fname, t0=t0, u0=inits, coefficients=[float(g.reshape(-1)[0]) for g in got][:5])
            if len(fails) > 10:
                break
        if len(fails) > 10:
            break
    seen = {}
    for f in fails:
        seen.setdefault(f["kind"], f)
    # the time-dependence of the first failing field is an attribute known findings can select on
    return core.result(case, list(seen.values()), transitions=n, traces=n, states=n, outcome="ok" if not fails else "|".join(sorted(seen)), dev=worst, sample=sample,
                       nontrivial=num >= 2)


def _run_pytree(case):
    """Pytree-shaped states: the routine applied to a structured state must equal the structure-wise unravelling of the
    exact coefficients of the flattened problem, and keep the caller's structure."""
    import collections

    import jax
    import jax.numpy as jnp
    from probdiffeq import probdiffeq

    from mc import impl

    kind, routine, num = case["kind"], case["routine"], case["num"]
    P = collections.namedtuple("P", ["x", "y"])
    d = 3
    C = alphabets.fields(3, 1, "thorough")["lorenzish"].copy()
    if not case["tdep"]:
        C[:, -1, :, :] = 0
        C[:, :, -1, :] = 0
        C[:, :, :, -1] = 0
    flat0 = np.array([0.5, 0.25, -0.75])
    if kind == "dict":
        pack = lambda v: {"a": v[:2], "b": v[2]}
    elif kind == "namedtuple":
        pack = lambda v: P(x=v[0], y=v[1:])
    elif kind == "nested":
        pack = lambda v: {"p": (v[0], {"q": v[1:2]}), "r": [v[2]]}
    elif kind == "rank2":
        pack = lambda v: jnp.reshape(v, (3, 1))
    else:
        d = 1
        C = alphabets.fields(1, 1, "thorough")["riccati_t" if case["tdep"] else "logistic"]
        flat0 = np.array([0.5])
        pack = lambda v: jnp.reshape(v, ())
    unflat = lambda tree: jnp.concatenate([jnp.reshape(x, (-1,)) for x in jax.tree.leaves(tree)])
    Cj = jnp.asarray(C)

    @probdiffeq.ode
    def vf(u, *, t):
        return pack(impl.poly_eval(Cj, [unflat(u)], t))

    alg = _routine(routine, num if routine != "doubling_unroll" else 2)
    fails = []
    worst = 0.0
    n = 0
    for t0 in T0S:
        u0 = pack(jnp.asarray(flat0))
        out, _ = alg(vf, [u0], t=t0)
        want = _exact(C, d, 1, [list(flat0)], t0, len(out) - 1)
        n += 1
        s0 = jax.tree.structure(u0)
        for k, o in enumerate(out):
            if jax.tree.structure(o) != s0 or [np.shape(x) for x in jax.tree.leaves(o)] != [np.shape(x) for x in jax.tree.leaves(u0)]:
                fails.append(core.fail("pytree_structure", f"{kind} t0={t0} order {k}: {jax.tree.structure(o)} vs {s0}"))
        if not fails:
            worst = _compare(fails, f"{kind} t0={t0}", [np.asarray(unflat(o)) for o in out], want, worst)
    seen = {}
    for f in fails:
        seen.setdefault(f["kind"], f)
    return core.result(case, list(seen.values()), transitions=n, traces=n, states=n, outcome="ok" if not fails else "|".join(sorted(seen)), dev=worst,
                       sample=dict(kind=kind, routine=routine))
