"""Numerical comparison policy (DESIGN 2.3): implementation (float64) vs reference (mpf).

States are compared after multiplication with the prior's own step scaling W = diag(h^i/i!) (the
coordinates in which a preconditioned square-root implementation is backward stable):

  |W (m_imp - m_ref)|_i   <= TAU * ( |W m_ref|_i + sd_i + 1e-4 * max_j |W m_ref|_j )
  |W (P_imp - P_ref) W|_ij <= TAU * ( sd_i sd_j + 1e-4 * max_k sd_k^2 ),   sd = sqrt(diag(W P_ref W))

TAU = 1e-8.  Justification: the worst deviation on the unchanged tree over everything the thorough
tier explores is recorded in the evidence (order 1e-13), while a wrong factor in gain, process noise,
preconditioner or calibration moves these quantities by >= 1e-4 relative.
"""

import numpy as np

from mc.refmodel import gauss

TAU = 1e-8
# An estimated output scale is |z|/sqrt(S) with z = H m + b formed by cancellation; its rounding error is
# ~1e-15 * floor, floor = the same formula applied to |H||m|+|b|.  Scales are compared with the absolute
# allowance TAU * FLOOR_REL * floor = 1e-11 * floor (1e4 x the rounding level, far below any seeded change).
FLOOR_REL = 1e-3


AMP_MAX = 1e6


def amplification(grid, q):
    """Rounding amplification by step-size growth.  The implementation is backward stable in the coordinates
    scaled with the *current* step (W = diag(h^i/i!)); information computed at an earlier, smaller step h_j
    is magnified by (h_k/h_j)^q when expressed at a later step h_k.  amp_k = max(1, max_{j<=k} (h_k/h_j)^q).
    Returns one value per grid point (point 0 -> 1)."""
    hs = [b - a for a, b in zip(grid[:-1], grid[1:])]
    out = [1.0]
    for k, h in enumerate(hs):
        out.append(max(1.0, max((h / hj) ** q for hj in hs[: k + 1])))
    # later points inherit earlier amplification (the state carries it along)
    run = 1.0
    res = []
    for a in out:
        run = max(run, a)
        res.append(run)
    return res


def admissible(grid, q):
    """A-priori rule on the alphabet: grids whose amplification exceeds AMP_MAX are outside float64's reach
    (rounding alone exceeds 1e-16 * 1e6 * condition) and are not asserted."""
    return amplification(grid, q)[-1] <= AMP_MAX


def state_dev(mean_imp, cov_imp, mean_ref, cov_ref, q, d, h):
    """Return (dev_mean, dev_cov) in units where 1.0 means 'at tolerance TAU' divided by TAU,
    i.e. plain relative deviations; compare against TAU."""
    W = np.array([float(w) for w in gauss.taylor_scaling(q, d, h)])
    m_ref = np.array([float(v) for v in mean_ref]) * W
    P_ref = gauss.tofloat(cov_ref) * W[:, None] * W[None, :]
    # differences are formed in mpf to avoid cancellation in the reference itself
    dm = np.array([float(gauss.mpf(float(a)) - b) for a, b in zip(mean_imp, mean_ref)]) * W
    n = len(W)
    dP = np.empty((n, n))
    for i in range(n):
        for j in range(n):
            dP[i, j] = float(gauss.mpf(float(cov_imp[i, j])) - cov_ref[i, j])
    dP = dP * W[:, None] * W[None, :]
    sd = np.sqrt(np.clip(np.diag(P_ref), 0.0, None))
    mscale = np.abs(m_ref) + sd + 1e-4 * max(np.max(np.abs(m_ref)), np.max(sd), 1e-300)
    cscale = sd[:, None] * sd[None, :] + 1e-4 * max(np.max(sd) ** 2, 1e-300)
    dev_m = float(np.max(np.abs(dm) / mscale))
    dev_c = float(np.max(np.abs(dP) / cscale))
    if not np.all(np.isfinite(mean_imp)) or not np.all(np.isfinite(cov_imp)):
        return float("inf"), float("inf")
    return dev_m, dev_c


def rel(a, b, floor=0.0):
    a = float(a)
    b = float(b)
    if not np.isfinite(a):
        return float("inf")
    return abs(a - b) / max(abs(b), floor, 1e-300)


def init_conditioning(std0, scale_min, h_min, q):
    """A-priori amplification for an inexact initial state: ratio = std0 / (scale * h_min^(q+1/2)) is the initial uncertainty in units of
    the process noise of the smallest step; the first updates cancel ~ratio * 1e-16 of their terms (observed up to 5e-13 * ratio).
    Returns max(1, ratio / 3e3); callers multiply their allowance by it and do not enumerate grids where it exceeds 1e4."""
    import numpy as np

    ratio = float(np.max(std0)) / (float(scale_min) * float(h_min) ** (q + 0.5))
    return max(1.0, ratio / 3e3)
