"""Finite alphabets shared by the product-space checks: polynomial vector fields as coefficient
tensors, initial values, dyadic step menus. Pure Python / numpy (no jax, no probdiffeq)."""

import itertools

import numpy as np


def tensor(d, m, terms):
    """terms: list of (out_dim, [var indices], coef); var index 0 = constant 1, 1..m*d = state coords
    (coefficient-major: u_1..u_d, u'_1..u'_d, ...), m*d+1 = t. Degree <= 3."""
    nz = m * d + 2
    C = np.zeros((d, nz, nz, nz))
    for k, vs, c in terms:
        vs = sorted(list(vs) + [0] * (3 - len(vs)))
        C[k, vs[0], vs[1], vs[2]] += c
    return C


def T(d, m):
    return m * d + 1


def fields(d, m, tier="quick"):
    """Catalogue of named polynomial fields for (d, m): name -> tensor."""
    t = T(d, m)
    out = {}
    if (d, m) == (1, 1):
        u = 1
        out["logistic"] = tensor(1, 1, [(0, [u], 1.0), (0, [u, u], -1.0)])
        out["riccati_t"] = tensor(1, 1, [(0, [u, u], 1.0), (0, [t, t, u], 1.0), (0, [t], 1.0)])
        out["decay_t"] = tensor(1, 1, [(0, [t, u], -2.0), (0, [], 0.375)])
        if tier != "quick":
            out["cubic"] = tensor(1, 1, [(0, [u, u, u], -0.5), (0, [u], 1.0), (0, [t, t], 0.5)])
            out["linear"] = tensor(1, 1, [(0, [u], -0.5)])
    elif (d, m) == (2, 1):
        a, b = 1, 2
        out["lv_t"] = tensor(2, 1, [(0, [a], 1.0), (0, [a, b], -1.0), (0, [t], 1.0), (1, [a, b], 0.5), (1, [b, t], -1.0)])
        out["rotdamp"] = tensor(2, 1, [(0, [b], -1.0), (0, [a], -0.125), (1, [a], 1.0), (1, [b], -0.125), (1, [a, a, b], -0.25)])
        if tier != "quick":
            out["cross_t"] = tensor(2, 1, [(0, [b, b], 0.5), (0, [t, a], -1.0), (1, [a, t, t], 0.25), (1, [b], -0.5), (1, [], 1.0)])
    elif (d, m) == (3, 1):
        a, b, c = 1, 2, 3
        out["lorenzish"] = tensor(3, 1, [(0, [b], 1.0), (0, [a], -1.0), (1, [a], 0.5), (1, [a, c], -1.0), (1, [b], -0.25),
                                         (2, [a, b], 1.0), (2, [c], -0.5), (2, [t], 0.5)])
        out["decoupled"] = tensor(3, 1, [(0, [a, a], -0.5), (0, [t], 1.0), (1, [b], -1.0), (1, [b, b, b], -0.25), (2, [c, t], 0.5), (2, [], 0.5)])
    elif (d, m) == (1, 2):
        u, du = 1, 2
        out["vdp_t"] = tensor(1, 2, [(0, [du], 0.5), (0, [u, u, du], -0.5), (0, [u], -1.0), (0, [t], 0.25)])
        out["harmonic"] = tensor(1, 2, [(0, [u], -1.0)])
        if tier != "quick":
            out["duffing_t"] = tensor(1, 2, [(0, [u], -1.0), (0, [u, u, u], -0.25), (0, [du], -0.125), (0, [t, t], 0.5)])
    elif (d, m) == (2, 2):
        a, b, da, db = 1, 2, 3, 4
        out["coupled_osc"] = tensor(2, 2, [(0, [a], -1.0), (0, [b], 0.25), (0, [da, b], -0.5), (1, [b], -0.5), (1, [a, a], 0.25), (1, [db], -0.125), (1, [t], 0.5)])
    else:
        raise ValueError((d, m))
    return out


def monomial_fields_1d(m=1, coefs=(1.0, -0.5), max_terms=2):
    """All fields with 1..max_terms monomials of degree <= 3 in (u[,u'],t) for d=1 (C02/C10/C11 thorough)."""
    nvars = m + 1  # state coords + t
    var_ids = list(range(1, m + 1)) + [m + 1]
    monos = [()]
    for deg in (1, 2, 3):
        monos += list(itertools.combinations_with_replacement(var_ids, deg))
    out = {}
    for r in range(1, max_terms + 1):
        for combo in itertools.combinations(range(len(monos)), r):
            terms = [(0, list(monos[i]), coefs[j % len(coefs)]) for j, i in enumerate(combo)]
            name = "+".join("".join(map(str, monos[i])) or "1" for i in combo)
            out["mono:" + name] = tensor(1, m, terms)
    return out


INITS = {
    (1, 1): [[[0.5]], [[-0.25]]],
    (2, 1): [[[0.5, 0.25]], [[1.0, -0.5]]],
    (3, 1): [[[0.5, 0.25, -0.75]]],
    (1, 2): [[[0.5], [-0.25]], [[1.0], [0.5]]],
    (2, 2): [[[0.5, 0.25], [-0.25, 0.125]]],
}

STEP_MENU = [2.0 ** -10, 2.0 ** -7, 0.125, 0.5, 1.0]


def grids(steps, lengths, t0=0.0):
    """All sequences of the given lengths over the step menu, as exact dyadic grids."""
    out = []
    for L in lengths:
        for seq in itertools.product(steps, repeat=L):
            g = [t0]
            for h in seq:
                g.append(g[-1] + h)
            out.append(g)
    return out
