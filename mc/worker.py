"""Worker process: run a shard of cases of one property and stream results as JSON lines."""
import importlib
import json
import os
import sys
import traceback


def run_inproc(pid, cases):
    mod = importlib.import_module(f"mc.props.{pid}")
    return list(mod.run_cases(cases))


def _clear_caches():
    import sys as _sys

    if "jax" in _sys.modules:
        try:
            import jax

            jax.clear_caches()
            from mc import impl

            impl.fixed_grid_program.cache_clear()
            impl.adaptive_program.cache_clear()
        except Exception:  # noqa: BLE001
            pass


def main(argv):
    pid, fin, fout = argv
    try:
        # a livelock in the code under test that accumulates results (e.g. a driver loop that never terminates) must end in a
        # MemoryError inside the case (reported as a failure of that case), not in an exhausted machine
        import resource

        lim = int(float(os.environ.get("VERIF_WORKER_MEM_GB", "64")) * 2 ** 30)  # virtual address space (JIT code counts)
        resource.setrlimit(resource.RLIMIT_AS, (lim, lim))
    except Exception:  # noqa: BLE001
        pass
    cases = json.load(open(fin))
    try:
        mod = importlib.import_module(f"mc.props.{pid}")
        with open(fout, "w") as out:
            # cases of one group share compiled programs; between groups the JIT caches are dropped so that a long shard does not
            # accumulate thousands of compiled programs
            groups = []
            for c in cases:
                if not groups or groups[-1][0]["group"] != c["group"]:
                    groups.append([])
                groups[-1].append(c)
            for g in groups:
                for r in mod.run_cases(g):
                    out.write(json.dumps(r, default=str) + "\n")
                    out.flush()
                _clear_caches()
    except Exception:
        traceback.print_exc()
        with open(fout, "a") as out:
            out.write(json.dumps({"harness_error": traceback.format_exc()[-4000:]}) + "\n")
        return 3
    return 0


if __name__ == "__main__":
    sys.exit(main(sys.argv[1:]))
