"""JAX-side drivers: small complete programs on the public probdiffeq API, parametrised by a
configuration dict; vector fields are coefficient tensors (data), so one compiled program serves
all fields / grids / initial values of a configuration.

Import only after mc.jaxenv.setup().
"""

import functools

import jax
import jax.numpy as jnp
import numpy as np
from probdiffeq import ivpsolve, probdiffeq

SSM = {
    "dense": probdiffeq.state_space_model_dense,
    "isotropic": probdiffeq.state_space_model_isotropic,
    "blockdiag": probdiffeq.state_space_model_blockdiag,
}
STRATEGY = {
    "filter": probdiffeq.strategy_filter,
    "fixedpoint": probdiffeq.strategy_smoother_fixedpoint,
    "fixedinterval": probdiffeq.strategy_smoother_fixedinterval,
}


def poly_eval(C, xs, t):
    """f_k = sum C[k,i,j,l] z_i z_j z_l, z = (1, *xs, t)."""
    z = jnp.concatenate([jnp.ones((1,), dtype=C.dtype)] + [jnp.reshape(x, (-1,)) for x in xs] + [jnp.reshape(jnp.asarray(t, dtype=C.dtype), (1,))])
    return jnp.einsum("kijl,i,j,l->k", C, z, z, z)


def make_ode(C, m):
    jac = probdiffeq.jacobian_materialize()
    if m == 1:
        return probdiffeq.ode(lambda u, *, t: poly_eval(C, [u], t), jacobian=jac)
    if m == 2:
        return probdiffeq.ode_order_two(lambda u, du, *, t: poly_eval(C, [u, du], t), jacobian=jac)
    return probdiffeq.ode_order_arbitrary(lambda *us, t: poly_eval(C, list(us), t), num_tcoeffs_in_args=m, jacobian=jac)


def make_constraint(ssm, C, m, lin):
    ode = make_ode(C, m)
    if lin == "ts0":
        return ssm.constraint_ode_ts0(ode)
    if lin == "ts1":
        return ssm.constraint_ode_ts1(ode)
    if lin == "residual":
        jac = probdiffeq.jacobian_materialize()
        if m == 1:
            res = probdiffeq.residual_velocity(lambda u, du, *, t: du - poly_eval(C, [u], t), jacobian=jac)
        elif m == 2:
            res = probdiffeq.residual_acceleration(lambda u, du, ddu, *, t: ddu - poly_eval(C, [u, du], t), jacobian=jac)
        else:
            raise ValueError(m)
        return ssm.constraint_residual(res)
    raise ValueError(lin)


def make_solver(cfg, constraint, constraint_init=None):
    strat = STRATEGY[cfg["strategy"]]()
    k = cfg["calib"]
    if k == "none":
        return probdiffeq.solver(strategy=strat, constraint=constraint, constraint_init=constraint_init)
    if k == "mle":
        return probdiffeq.solver_mle(strategy=strat, constraint=constraint, constraint_init=constraint_init,
                                     correct_asymptotic_underconfidence=cfg.get("correction", True))
    if k == "dynamic":
        return probdiffeq.solver_dynamic(strategy=strat, constraint=constraint, constraint_init=constraint_init,
                                         re_linearize_after_calibration=cfg.get("relin", False),
                                         stop_gradient_through_calibration=cfg.get("stopgrad", True))
    raise ValueError(k)


def base_scale_arg(cfg, scale_vec):
    """Base output scale in the shape each factorisation documents (None = default)."""
    if not cfg.get("scaled", False):
        return None
    if cfg["ssm"] == "isotropic":
        return scale_vec[0]
    return scale_vec  # dense / blockdiag: per-dimension vector shaped like u0


def make_prior(cfg, ssm, tcoeffs, scale_vec, std_vec=None):
    """tcoeffs: array (q+1-diffuse, d). init kinds: exact | inexact | mixed | explicit(std_vec)."""
    tc = [tcoeffs[i] for i in range(tcoeffs.shape[0])]
    kw = dict(output_scale=base_scale_arg(cfg, scale_vec), diffuse_derivatives=cfg.get("diffuse", 0))
    if cfg.get("diffuse", 0):
        kw["diffuse_eps"] = cfg.get("diffuse_eps", 1.0)
    init = cfg.get("init", "exact")
    ikw = dict(is_exact=True) if init == "exact" else dict(is_exact=False, inexact_eps=cfg.get("inexact_eps", 1e-3))
    kind = cfg.get("prior", "iwp")
    if kind == "iwp":
        return ssm.prior_wiener_integrated(tc, **ikw, **kw)
    if kind == "ou":
        d = tcoeffs.shape[1]
        Mj = jnp.asarray(OU_DRIFT[:d, :d])
        return ssm.prior_ornstein_uhlenbeck_integrated(lambda x: Mj @ x, tc, **ikw, **kw)
    if kind == "matern":
        return ssm.prior_matern(MATERN_LENGTH, tc, **ikw, **kw)
    raise ValueError(kind)


OU_DRIFT = np.array([[-0.5, -2.0, 0.0], [2.0, -0.25, 0.0], [0.0, 0.0, -3.0]])
MATERN_LENGTH = 0.75


def sde_matrices(kind, q, d):
    """Dense drift matrix F and the un-scaled dispersion selector of the exponential priors (coefficient-major)."""
    from math import comb

    n = (q + 1) * d
    F = np.zeros((n, n))
    for i in range(q):
        F[i * d:(i + 1) * d, (i + 1) * d:(i + 2) * d] = np.eye(d)
    if kind == "ou":
        F[-d:, -d:] = OU_DRIFT[:d, :d]
    elif kind == "matern":
        D = q + 1
        lam = np.sqrt(2 * (D - 0.5)) / MATERN_LENGTH
        for i in range(D):
            F[-d:, i * d:(i + 1) * d] = -comb(D, i) * lam ** (D - i) * np.eye(d)
    else:
        raise ValueError(kind)
    return F


def init_std(cfg, q, d):
    """The initial standard deviations (coefficient-major, length (q+1)*d) that make_prior documents."""
    ndiff = cfg.get("diffuse", 0)
    base = 0.0 if cfg.get("init", "exact") == "exact" else cfg.get("inexact_eps", 1e-3)
    out = [base] * ((q + 1 - ndiff) * d) + [cfg.get("diffuse_eps", 1.0)] * (ndiff * d)
    return np.asarray(out)


@functools.lru_cache(maxsize=None)
def fixed_grid_program(cfg_key):
    """Compile-once program: (C, grid, tcoeffs, scale_vec, damp) -> (means, covs, output_scale, num_steps[, extras])."""
    cfg = dict(cfg_key)

    def run(C, grid, tcoeffs, scale_vec, damp):
        ssm = SSM[cfg["ssm"]]()
        prior = make_prior(cfg, ssm, tcoeffs, scale_vec)
        con = make_constraint(ssm, C, cfg["m"], cfg["lin"])
        con0 = make_constraint(ssm, C, cfg["m"], cfg["lin"]) if cfg.get("constraint_init") else None
        solver = make_solver(cfg, con, con0)
        sol = ivpsolve.solve_fixed_grid(solver=solver)(prior, grid=grid, damp=damp)
        mean, cov = sol.u.to_multivariate_normal()
        out = dict(mean=mean, cov=cov, output_scale=sol.output_scale, num_steps=sol.num_steps, t=sol.t)
        if cfg["strategy"] != "filter":
            fm, fc = sol.solution_full.filtering.to_multivariate_normal()
            out["filt_mean"], out["filt_cov"] = fm, fc
            out["post"] = sol.solution_full.posterior
        return out

    return jax.jit(run)


@functools.lru_cache(maxsize=None)
def adaptive_program(cfg_key):
    """Compile-once program for solve_adaptive_save_at with a scripted step history:
    (C, save_at, tcoeffs, scale_vec, damp, S, r, dt0, eps) -> dict."""
    from mc import scripted

    cfg = dict(cfg_key)

    def run(C, save_at, tcoeffs, scale_vec, damp, S, r, dt0, eps):
        ssm = SSM[cfg["ssm"]]()
        prior = make_prior(cfg, ssm, tcoeffs, scale_vec)
        con = make_constraint(ssm, C, cfg["m"], cfg["lin"])
        con0 = make_constraint(ssm, C, cfg["m"], cfg["lin"]) if cfg.get("constraint_init") else None
        solver = make_solver(cfg, con, con0)
        solve = ivpsolve.solve_adaptive_save_at(solver=solver, error=scripted.ScriptErr(S), control=scripted.ScriptCtl(S, r),
                                                clip_dt=cfg.get("clip", False), warn=False)
        sol = solve(prior, save_at=save_at, atol=1.0, rtol=1.0, dt0=dt0, eps=eps, damp=damp)
        mean, cov = sol.u.to_multivariate_normal()
        out = dict(mean=mean, cov=cov, output_scale=sol.output_scale, num_steps=sol.num_steps, t=sol.t)
        if cfg["strategy"] != "filter":
            fm, fc = sol.solution_full.filtering.to_multivariate_normal()
            out["filt_mean"], out["filt_cov"] = fm, fc
            out["post"] = sol.solution_full.posterior
        return out

    return jax.jit(run)


def cfg_key(cfg):
    return tuple(sorted(cfg.items()))


def cond_to_dense(cond, ssm_name):
    """Dense (A, b, Q) of a (batched) backward conditional, preconditioner removed, coefficient-major.

    Works on numpy-converted leaves of the library's LatentCond objects."""
    A = np.asarray(cond.A)
    tl = np.asarray(cond.to_latent)
    to = np.asarray(cond.to_observed)
    b = np.asarray(cond.noise.mean_flat)
    L = np.asarray(cond.noise.cholesky_flat)
    if ssm_name == "dense":
        Ad = to[:, None] * A * tl[None, :]
        bd = to * b
        Ld = np.abs(to)[:, None] * L
        return Ad, bd, Ld @ Ld.T
    if ssm_name == "isotropic":
        n, d = b.shape
        A1 = to[:, None] * A * tl[None, :]
        L1 = np.abs(to)[:, None] * L
        Ad = np.kron(A1, np.eye(d))
        bd = (to[:, None] * b).reshape(-1)
        return Ad, bd, np.kron(L1 @ L1.T, np.eye(d))
    if ssm_name == "blockdiag":
        d, n = b.shape
        Ad = np.zeros((n * d, n * d))
        Qd = np.zeros((n * d, n * d))
        bd = np.zeros(n * d)
        for k in range(d):
            A1 = to[k][:, None] * A[k] * tl[k][None, :]
            L1 = np.abs(to[k])[:, None] * L[k]
            idx = np.arange(n) * d + k
            Ad[np.ix_(idx, idx)] = A1
            Qd[np.ix_(idx, idx)] = L1 @ L1.T
            bd[idx] = to[k] * b[k]
        return Ad, bd, Qd
    raise ValueError(ssm_name)
