---- MODULE MC ----
EXTENDS AdaptiveLoop
\* one unit = eps/2 = 2^-21; 1/32 = 65536 units
U == 65536
SaveAtC == <<0, 8 * U, 16 * U, 16 * U + 1, 24 * U - 1, 32 * U>>
DT0SC == {4 * U, 10 * U}
====
