---------------------------- MODULE AdaptiveLoop ----------------------------
(* Stepping protocol of solve_adaptive_save_at / RejectionLoop.loop (Kraemer 2025), written from the
   documentation, independently of the implementation.  Time is an integer lattice (one unit = eps/2 of
   the real run, eps = EPS units), so the correspondence with floating point is exact (all values dyadic).

   One transition = one call of RejectionLoop.loop(state, t1 = SaveAt[idx]) under an abstract
   environment: r rejections (each halves the attempted step) followed by one acceptance after which the
   controller proposes fac * (accepted step), clamped to [LO, HI].  lastR / lastFac / lastBranch / lastT
   record only the *last* choice and report (no history variable), so that every edge of the dumped state
   graph can be replayed against the implementation (mc/replay_tlc.py). *)
EXTENDS Integers, Sequences

CONSTANTS SaveAt,   \* <<t0, c1, ..., cK>> increasing
          EPS,      \* eps in lattice units
          LO, HI,   \* controller clamp
          DT0S,     \* set of initial step sizes
          CLIP,     \* BOOLEAN
          MAXR      \* maximal number of rejections per call

VARIABLES tStep, tInterp, dt, idx, lastR, lastFac, lastBranch, lastT

vars == <<tStep, tInterp, dt, idx, lastR, lastFac, lastBranch, lastT>>
K == Len(SaveAt)
Min(a, b) == IF a < b THEN a ELSE b
Max(a, b) == IF a > b THEN a ELSE b
Pow2(r) == IF r = 0 THEN 1 ELSE IF r = 1 THEN 2 ELSE 4

Init == /\ tStep = SaveAt[1] /\ tInterp = SaveAt[1] /\ dt \in DT0S /\ idx = 2
        /\ lastR = 0 /\ lastFac = 1 /\ lastBranch = "init" /\ lastT = SaveAt[1]

Before(t, t1) == t + EPS < t1
After(t, t1)  == t > t1 + EPS

(* the interpolation / reporting switch, given the (possibly new) right end ts and left end ti *)
Report(ts, ti, t1, dtNew, r, fac) ==
  IF Before(ts, t1)
  THEN /\ tStep' = ts /\ tInterp' = ti /\ idx' = idx /\ lastBranch' = "skip" /\ lastT' = ts
  ELSE IF After(ts, t1)
       THEN /\ tStep' = ts /\ tInterp' = t1 /\ idx' = idx + 1 /\ lastBranch' = "beyond" /\ lastT' = t1
       ELSE /\ tStep' = ts /\ tInterp' = ts /\ idx' = idx + 1 /\ lastBranch' = "at" /\ lastT' = ts

Loop ==
  /\ idx <= K
  /\ LET t1 == SaveAt[idx] IN
     IF Before(tStep, t1)
     THEN \E r \in 0..MAXR, fac \in {1, 2} :
            LET h0 == IF CLIP THEN Min(dt, t1 - tStep) ELSE dt
                h  == h0 \div Pow2(r)
            IN /\ (r > 0 => h0 \div Pow2(r) >= LO /\ h0 % Pow2(r) = 0)
               /\ dt' = Min(Max(fac * h, LO), HI)
               /\ lastR' = r /\ lastFac' = fac
               /\ Report(tStep + h, tStep, t1, dt', r, fac)
     ELSE /\ dt' = dt /\ lastR' = 0 /\ lastFac' = 0
          /\ Report(tStep, tInterp, t1, dt, 0, 0)

Done == idx > K /\ UNCHANGED vars
Next == Loop \/ Done
Spec == Init /\ [][Next]_vars /\ WF_vars(Loop)

(* ------------------------------- properties (clauses of C06) ------------------------------- *)
TypeOK == /\ tStep \in Int /\ tInterp \in Int /\ dt \in LO..HI \cup DT0S /\ idx \in 2..(K + 1)
InterpLeft == tInterp <= tStep                                   \* interpolation source left of target
ReportedAtCheckpoint ==                                            \* reported exactly once, in order, within eps
  lastBranch \in {"beyond", "at"} => /\ lastT - SaveAt[idx - 1] <= EPS /\ SaveAt[idx - 1] - lastT <= EPS
BeyondInside == lastBranch = "beyond" => tInterp = SaveAt[idx - 1] /\ tInterp < tStep
ClipRespected == (CLIP /\ lastBranch \in {"skip", "at", "beyond"} /\ lastFac > 0) => tStep <= SaveAt[IF lastBranch = "skip" THEN idx ELSE idx - 1]
NoAttemptAfterEnd == (idx > K) => ~Before(tStep, SaveAt[K])
Terminates == <>(idx > K)
=============================================================================
