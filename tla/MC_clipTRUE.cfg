SPECIFICATION Spec
CONSTANTS
  SaveAt <- SaveAtC
  EPS = 2
  LO = 65536
  HI = 1048576
  DT0S <- DT0SC
  CLIP = TRUE
  MAXR = 2
INVARIANTS TypeOK InterpLeft ReportedAtCheckpoint BeyondInside ClipRespected NoAttemptAfterEnd
PROPERTY Terminates
